"""Common driver for the per-property checks: runs configurations in parallel, replays
counterexamples and witnesses on the real stack, applies the known-findings file, writes the
evidence file and sets the exit code (0 held / 1 violation / 2 inconclusive)."""
import argparse
import concurrent.futures as cf
import importlib
import json
import os
import sys
import time
import traceback

os.environ.setdefault('TQDM_DISABLE', '1')
import logging  # noqa: E402
logging.disable(logging.CRITICAL)      # phylib / mtscomp log to stderr/stdout; not part of the check output
VERIF = os.path.dirname(os.path.dirname(os.path.abspath(__file__)))
sys.path.insert(0, VERIF)

from symx import core  # noqa: E402


def load_known(pid):
    p = os.path.join(VERIF, 'known_findings.json')
    if not os.path.exists(p):
        return []
    with open(p) as f:
        data = json.load(f)
    return [e for e in data.get('findings', []) if e['property'] == pid and e.get('status') == 'known']


def _run_config(args):
    modname, cfg, tier, seed = args
    mod = importlib.import_module(modname)
    t0 = time.time()
    res = {'cfg': cfg, 'stats': {}, 'cex': [], 'witnesses': [], 'error': None, 'bound': None,
           'functions': []}
    e = core.Engine(qtimeout_ms=(20000 if tier == 'quick' else 120000),
                    loop_bound=getattr(mod, 'LOOP_BOUND', 64))
    e.tier = tier
    budget = getattr(mod, 'CONFIG_BUDGET_S', {'quick': 240, 'thorough': 900})[tier]
    if os.environ.get('VERIF_CONFIG_BUDGET'):
        budget = int(os.environ['VERIF_CONFIG_BUDGET'])
    e.deadline = time.time() + budget
    try:
        mod.run_config(cfg, e)
    except core.BoundExceeded as ex:
        res['bound'] = str(ex)
    except core.Inconclusive as ex:
        res['error'] = 'inconclusive: %s' % ex
    except Exception:
        res['error'] = 'harness error: ' + traceback.format_exc()
    if e.bound_exceeded and not res['bound']:
        res['bound'] = '%d path(s): %s' % (len(e.bound_exceeded), e.bound_exceeded[0])
    res['stats'] = dict(e.stats)
    res['functions'] = sorted(e.functions)
    # replay counterexamples on the real code
    cex = []
    for c in e.cex:
        try:
            failure = mod.replay(c['case'])
        except core.TooLarge as ex:
            failure = None
            c['too_large'] = str(ex)
        except Exception:
            failure = 'replay crashed: ' + traceback.format_exc()
            c['replay_crashed'] = True
        c['reproduced'] = failure is not None
        c['failure'] = failure
        cex.append(c)
    res['cex'] = cex
    # witness replays
    nw = 0
    wfail = []
    cap = getattr(mod, 'WITNESS_CAP', {'quick': 20, 'thorough': 100})[tier]
    step = max(1, len(e.witnesses) // cap) if cap else 1
    for w in e.witnesses[::step][:cap]:
        try:
            failure = mod.replay(w)
        except core.TooLarge:
            res['witness_too_large'] = res.get('witness_too_large', 0) + 1
            continue
        except Exception:
            failure = 'replay crashed: ' + traceback.format_exc()
        nw += 1
        if failure is not None:
            wfail.append({'label': 'witness', 'case': w, 'failure': failure, 'reproduced': True,
                          'kind': 'witness'})
    res['witness_replays'] = nw
    res['witness_failures'] = wfail
    res['samples'] = e.witnesses[:2]
    res['wall_s'] = time.time() - t0
    return res


def main(modname):
    mod = importlib.import_module(modname)
    pid = mod.PID
    ap = argparse.ArgumentParser()
    ap.add_argument('--tier', default=os.environ.get('VERIF_TIER', 'quick'))
    ap.add_argument('--replay', default=None)
    ap.add_argument('--jobs', type=int, default=int(os.environ.get('VERIF_JOBS', '16')))
    ap.add_argument('--only', default=None, help='substring filter on config json')
    ap.add_argument('--stats', action='store_true', help='print per-configuration statistics')
    a = ap.parse_args()
    tier = a.tier if a.tier in ('quick', 'thorough') else 'quick'
    seed = int(os.environ.get('VERIF_SEED', '0') or 0)

    if a.replay:
        with open(a.replay) as f:
            case = json.load(f)
        failure = mod.replay(case.get('case', case))
        if failure is None:
            print('replay: real code agrees with the oracle')
            return 0
        print('replay: %s' % failure)
        print('VIOLATION property=%s replay=%s' % (pid, a.replay))
        return 1

    t0 = time.time()
    conformance = None
    try:
        from symx import conformance as _conf
        conformance = _conf.run(seed, rounds=(6 if tier == 'quick' else 20))
        if not conformance['ok']:
            print('INCONCLUSIVE property=%s NumPy-model conformance suite failed: %s' % (pid, conformance['failures']))
            return 2
    except Exception:
        print('INCONCLUSIVE property=%s conformance suite crashed:\n%s' % (pid, traceback.format_exc()))
        return 2
    cfgs = mod.configs(tier)
    if a.only:
        cfgs = [c for c in cfgs if a.only in json.dumps(c)]
    jobs = [(modname, c, tier, seed) for c in cfgs]
    results = []
    if a.jobs <= 1 or len(jobs) <= 1:
        results = [_run_config(j) for j in jobs]
    else:
        with cf.ProcessPoolExecutor(max_workers=min(a.jobs, len(jobs))) as ex:
            results = list(ex.map(_run_config, jobs, chunksize=1))

    if a.stats:
        for r in sorted(results, key=lambda r: -r.get('wall_s', 0))[:25]:
            print('  %.1fs paths=%s %s' % (r.get('wall_s', 0), r['stats'].get('paths'), json.dumps(r['cfg'], default=str)[:230]))
    known = load_known(pid)
    classify = getattr(mod, 'classify', None)
    totals = {}
    violations = []
    knowns_hit = {}
    inconclusive = []
    functions = set(getattr(mod, 'FUNCTIONS', []))
    samples = []
    wrep = 0
    for r in results:
        for k, v in r['stats'].items():
            totals[k] = totals.get(k, 0) + v
        wrep += r.get('witness_replays', 0)
        functions.update(r['functions'])
        if r['error']:
            inconclusive.append({'cfg': r['cfg'], 'why': r['error']})
        if r['bound']:
            inconclusive.append({'cfg': r['cfg'], 'why': 'bound exceeded: ' + r['bound']})
        if r['stats'].get('paths_completed', 0) == 0 and not r['cex'] and not r['error'] and not r['bound']:
            inconclusive.append({'cfg': r['cfg'], 'why': 'vacuous: no completed path'})
        for c in r['cex'] + r.get('witness_failures', []):
            if c.get('too_large'):
                inconclusive.append({'cfg': r['cfg'], 'why': 'counterexample too large to replay: %s %s' % (
                    c['label'], c['too_large'])})
                continue
            if not c['reproduced']:
                inconclusive.append({'cfg': r['cfg'], 'why': 'counterexample does not reproduce on the '
                                     'real code (encoding/stub error): %s %s' % (c['label'], json.dumps(c['case'], default=str)[:400])})
                continue
            if c.get('replay_crashed'):
                inconclusive.append({'cfg': r['cfg'], 'why': 'replay crashed: %s' % c['failure'][-600:]})
                continue
            fid = None
            if classify:
                fid = classify(c['case'], c['failure'])
            if fid is not None and any(k['id'] == fid for k in known):
                knowns_hit.setdefault(fid, c)
            else:
                c['cfg'] = r['cfg']
                violations.append(c)
        for s in r.get('samples', []):
            if len(samples) < 6:
                samples.append(s)

    wall = time.time() - t0
    os.makedirs(os.path.join(VERIF, 'replays', pid), exist_ok=True)
    vpaths = []
    seen = set()
    for i, v in enumerate(violations):
        key = json.dumps(v['case'], sort_keys=True, default=str)
        if key in seen:
            continue
        seen.add(key)
        p = os.path.join(VERIF, 'replays', pid, 'violation_%s_%d.json' % (tier, len(vpaths)))
        with open(p, 'w') as f:
            json.dump({'property': pid, 'label': v['label'], 'failure': v['failure'], 'case': v['case'],
                       'cfg': v.get('cfg')}, f, indent=1, default=str)
        vpaths.append((p, v))
        if len(vpaths) >= 10:
            break

    paths = int(totals.get('paths_completed', 0))
    ev = {
        'property_id': pid,
        'tier': tier,
        'seed': seed,
        'level': 'other',
        'coverage': {
            'explanation': getattr(mod, 'EXPLANATION', '') or (
                'Bounded symbolic execution (decision-replay over z3) of the real phylib functions '
                'loaded from /repo on every run; every path obligation discharged by z3 (unsat) holds '
                'for all values of the symbolic inputs on that path within the stated bounds.'),
            'functions_encoded': sorted(functions),
            'bounds': getattr(mod, 'BOUNDS', {}).get(tier, getattr(mod, 'BOUNDS', {})),
            'outside_claim': getattr(mod, 'OUTSIDE', []),
            'stubs': getattr(mod, 'STUBS', []),
            'configs': len(results),
            'paths': paths,
            'paths_aborted': int(totals.get('paths_aborted', 0)),
            'evaluations': max(paths, 0),
            'distinct_nontrivial': int(totals.get('paths_nontrivial', 0)),
            'rule': 'one evaluation = one feasible path of the real code explored symbolically '
                    '(a class of inputs, not one input); non-trivial = the path was reached through at '
                    'least one solver-decided fork; distinct because every path has a different decision prefix',
            'obligations': int(totals.get('obligations', 0)),
            'discharged': int(totals.get('discharged', 0)),
            'sat': int(totals.get('sat', 0)),
            'unknown': int(totals.get('unknown', 0)),
            'branch_queries': int(totals.get('queries', 0)),
            'forks': int(totals.get('forks', 0)),
            'solver_s': round(totals.get('solver_s', 0.0), 2),
            'reach_witnesses': int(totals.get('reach_witnesses', 0)),
            'witness_replays_on_real_code': wrep,
            'conformance': conformance,
            'samples': samples or [r['cfg'] for r in results[:3]],
            'known_findings_hit': sorted(knowns_hit),
            'inconclusive': inconclusive[:10],
            'exhaustive': False,
        },
        'assumptions': getattr(mod, 'ASSUMPTIONS', []),
        'wall_s': round(wall, 2),
        'violations': len(vpaths),
    }
    os.makedirs(os.path.join(VERIF, 'evidence'), exist_ok=True)
    with open(os.path.join(VERIF, 'evidence', pid + '.json'), 'w') as f:
        json.dump(ev, f, indent=1, default=str)

    print('%s tier=%s configs=%d paths=%d obligations=%d discharged=%d sat=%d queries=%d solver_s=%.1f '
          'witness_replays=%d wall=%.1fs' % (pid, tier, len(results), paths, ev['coverage']['obligations'],
                                          ev['coverage']['discharged'], ev['coverage']['sat'],
                                          ev['coverage']['branch_queries'], ev['coverage']['solver_s'], wrep, wall))
    for fid, c in sorted(knowns_hit.items()):
        k = [k for k in known if k['id'] == fid][0]
        print('KNOWN-FINDING: property=%s %s [%s]' % (pid, k['what'], fid))
    if vpaths:
        for p, v in vpaths:
            print('  %s: %s' % (v['label'], str(v['failure'])[:300]))
            print('VIOLATION property=%s replay=%s' % (pid, p))
        return 1
    if inconclusive:
        for i in inconclusive[:10]:
            print('INCONCLUSIVE property=%s cfg=%s: %s' % (pid, json.dumps(i['cfg'], default=str)[:200], i['why'][:1500]))
        return 2
    return 0
