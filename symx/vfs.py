"""symx.vfs -- in-memory file system seen by the symbolically executed phylib code."""
import builtins as _b
import io
import operator
import fnmatch
import types
from pathlib import PurePosixPath

import numpy as _np
import z3

from . import core
from .core import Sym, SymInt, SymReal, SymBool, Inconclusive
from . import symnp as snp
from . import lam


def _norm(path):
    """lexical normalisation (a/../b, ./, //) of a virtual path"""
    import posixpath
    return posixpath.normpath(str(path))


class Entry(object):
    def __init__(self, kind, **kw):
        self.kind = kind          # 'dir' 'npy' 'raw' 'text' 'cbin' 'other'
        self.present = True       # True or SymBool
        self.preexisting = False
        self.__dict__.update(kw)


class FS(object):
    def __init__(self):
        self.entries = {}         # str path -> Entry
        self.log = []             # (op, path)

    def add(self, path, entry, preexisting=True):
        entry.preexisting = preexisting
        self.entries[_norm(path)] = entry
        return entry

    def mkdir(self, path):
        p = _norm(path)
        if p not in self.entries:
            self.entries[p] = Entry('dir')

    def get(self, path):
        e = self.entries.get(_norm(path))
        if e is None:
            return None
        if e.present is True:
            return e
        if e.present is False:
            return None
        return e if _b.bool(e.present) else None

    def listdir(self, path):
        p = _norm(path).rstrip('/')
        out = []
        for k in sorted(self.entries):
            if k.startswith(p + '/') and '/' not in k[len(p) + 1:]:
                if self.get(k) is not None:
                    out.append(k)
        return out


_FS = FS()


def fs():
    return _FS


def reset():
    global _FS
    _FS = FS()
    return _FS


class _Stat(object):
    def __init__(self, size):
        self.st_size = size


class VPath(PurePosixPath):
    def exists(self):
        return _FS.get(self) is not None

    def is_dir(self):
        e = _FS.get(self)
        return e is not None and e.kind == 'dir'

    def is_file(self):
        e = _FS.get(self)
        return e is not None and e.kind != 'dir'

    def is_symlink(self):
        return False

    def resolve(self):
        return VPath(_norm(self))

    def absolute(self):
        return self

    def mkdir(self, parents=False, exist_ok=False, mode=None):
        if _FS.get(self) is not None:
            if not exist_ok:
                raise FileExistsError(str(self))
            return
        _FS.log.append(('mkdir', _norm(self)))
        _FS.mkdir(self)

    def stat(self):
        e = _FS.get(self)
        if e is None:
            raise FileNotFoundError(str(self))
        return _Stat(e.size if hasattr(e, 'size') else 0)

    def glob(self, pattern):
        out = []
        for k in _FS.listdir(self):
            name = k.rsplit('/', 1)[1]
            if fnmatch.fnmatchcase(name, pattern):
                out.append(VPath(k))
        return iter(out)

    def iterdir(self):
        return iter([VPath(k) for k in _FS.listdir(self)])

    def unlink(self):
        if _FS.get(self) is None:
            raise FileNotFoundError(str(self))
        _FS.log.append(('unlink', _norm(self)))
        del _FS.entries[_norm(self)]

    def rename(self, target):
        e = _FS.get(self)
        if e is None:
            raise FileNotFoundError(str(self))
        _FS.log.append(('rename', _norm(self), _norm(target)))
        del _FS.entries[_norm(self)]
        _FS.entries[_norm(target)] = e
        return VPath(str(target))

    def open(self, mode='r', **kw):
        return vopen(self, mode, **kw)

    def read_text(self):
        e = _FS.get(self)
        if e is None:
            raise FileNotFoundError(str(self))
        return e.text

    def write_text(self, s):
        _write_entry(self, Entry('text', text=s))

    @classmethod
    def home(cls):
        return cls('/home/user')


def _write_entry(path, entry):
    p = _norm(path)
    old = _FS.get(p)
    _FS.log.append(('overwrite' if old is not None else 'create', p))
    entry.preexisting = False
    if old is not None and getattr(old, 'nlink', 1) > 1:
        # the name is a hard link: writing replaces the content of the shared inode
        keep = old.nlink
        for other_path, other in list(_FS.entries.items()):
            if other is old and other_path != p:
                _FS.log.append(('overwrite', other_path))
        old.__dict__.clear()
        old.__dict__.update(entry.__dict__)
        old.nlink = keep
        return
    _FS.entries[p] = entry


def os_link(src, dst):
    e = _FS.get(src)
    if e is None:
        raise FileNotFoundError(str(src))
    if _FS.get(dst) is not None:
        raise FileExistsError(str(dst))
    e.nlink = getattr(e, 'nlink', 1) + 1
    _FS.log.append(('create', _norm(dst)))
    _FS.entries[_norm(dst)] = e


class _FakeOs(object):
    """the real os module with link/symlink redirected to the virtual file system"""
    def __getattr__(self, n):
        import os as _os
        return getattr(_os, n)

    link = staticmethod(os_link)

    @staticmethod
    def symlink(src, dst, *a, **k):
        raise OSError('symlinks are not modelled')


fake_os = _FakeOs()


def shutil_copy(src, dst):
    e = _FS.get(src)
    if e is None:
        raise FileNotFoundError(str(src))
    d = _FS.get(dst)
    if d is not None and d.kind == 'dir':
        dst = VPath(str(dst)) / VPath(str(src)).name
    import copy as _copy
    ne = _copy.copy(e)
    if e.kind == 'npy':
        ne.arr = e.arr.copy()
    ne.present = True
    _write_entry(dst, ne)
    return dst


# ------------------------------------------------------------------------------------------
# npy files
# ------------------------------------------------------------------------------------------

def npy_entry(arr, hdr_dtype=None, hdr_shape=None):
    arr = snp.asarray(arr)
    return Entry('npy', arr=arr, hdr_dtype=hdr_dtype or arr.dtype, hdr_shape=hdr_shape or arr.shape,
                 corrupt=False)


def np_save(path, arr, **kw):
    p = str(path)
    if not p.endswith('.npy'):
        p += '.npy'
    arr = snp.asarray(arr)
    _write_entry(p, npy_entry(arr.copy()))


def np_load(path, mmap_mode=None):
    p = str(path)
    e = _FS.get(p)
    if e is None:
        raise FileNotFoundError("[Errno 2] No such file or directory: '%s'" % p)
    if e.kind != 'npy':
        raise ValueError('Cannot load file containing pickled data / not an npy file: %s' % p)
    if e.corrupt:
        raise ValueError('cannot reshape array / file size does not match the npy header: %s' % p)
    arr = e.arr
    if mmap_mode is None:
        return arr.copy()
    if isinstance(arr, lam.LArr):
        return arr
    if mmap_mode not in ('r', 'r+', 'c', 'w+'):
        raise ValueError("mode must be one of ['r', 'c', 'r+', 'w+']")
    m = snp.memmap(arr.a if mmap_mode == 'r+' else arr.a.copy(), arr.dtype)
    m._mmap = _Closer()
    m._entry = e
    m._mode = mmap_mode
    if mmap_mode == 'r+':
        m._writes_through = p
    return m


class _Closer(object):
    def close(self):
        pass


def np_fromfile(path, dtype=None):
    raise Inconclusive('np.fromfile')


# ------------------------------------------------------------------------------------------
# flat binary raw files / np.memmap
# ------------------------------------------------------------------------------------------

def raw_entry(size, elem):
    """size: byte size (SymInt/int); elem(byte_offset, dtype) -> raw element term"""
    return Entry('raw', size=size, elem=elem)


def np_memmap(path, dtype=None, offset=0, shape=None, mode='r+'):
    e = _FS.get(path)
    if e is None:
        raise FileNotFoundError(str(path))
    dt = _np.dtype(dtype)
    isz = dt.itemsize
    nr, nc = shape
    f = e.elem

    def g(idx):
        return f(offset + (idx[0] * nc + idx[1]) * isz, dt)
    return lam.LArr((nr, nc), dt, g)


# ------------------------------------------------------------------------------------------
# open()
# ------------------------------------------------------------------------------------------

class NpyWriterFile(object):
    """File opened 'wb' that receives an npy header and raw element chunks."""
    def __init__(self, path):
        self.path = str(path)
        self.header = None
        self.chunks = []
        self.closed = False
        _write_entry(self.path, Entry('other'))

    def write_npy_header(self, d):
        self.header = d

    def write(self, tok):
        if not isinstance(tok, snp.BytesToken) and self.header is not None:
            raise Inconclusive('raw bytes written to an npy writer file')
        self.chunks.append(tok)

    def flush(self):
        pass

    def tell(self):
        raise Inconclusive('tell')

    def close(self):
        if self.closed:
            return
        self.closed = True
        if self.header is None:
            _FS.entries[self.path] = Entry('bin', content=list(self.chunks))
            return
        shape = tuple(self.header['shape'])
        hdt = _np.dtype(self.header['descr'])
        ok = True
        for t in self.chunks:
            if t.dtype != hdt:
                ok = False
        total = 0
        for t in self.chunks:
            total = total + t.arr.size
        want = 1
        for s in shape:
            want = want * s
        e = Entry('npy', hdr_dtype=hdt, hdr_shape=shape, corrupt=False)
        if not ok or _b.bool(total != want):
            e.corrupt = True
            e.arr = None
        else:
            # flat element sequence in write order
            parts = [t.arr for t in self.chunks]
            e.arr = _FlatChunks(parts, shape, hdt).as_array()
        _FS.entries[self.path] = e

    def __enter__(self):
        return self

    def __exit__(self, *a):
        self.close()
        return False


class _FlatChunks(object):
    """Array of header shape whose C-order element sequence is the concatenation of the
    C-order sequences of the written chunks (each chunk has shape (m_i,) + shape[1:])."""
    def __init__(self, parts, shape, dt):
        self.parts, self.shape, self.dt = parts, shape, dt

    def as_array(self):
        parts = self.parts
        if not parts:
            return snp.zeros(self.shape, self.dt)
        for p in parts:
            if tuple(p.shape[1:]) != tuple(self.shape[1:]) and \
                    _b.any(_b.bool(a != b) for a, b in zip(p.shape[1:], self.shape[1:])):
                raise Inconclusive('npy writer: chunk with a different trailing shape')
        return snp.concatenate(parts, 0) if len(parts) > 1 else parts[0]


class NpyRawFile(object):
    """open(path, 'r+b') on an existing npy file: header is 128 bytes; element-granular writes."""
    HLEN = 118

    def __init__(self, path):
        self.path = str(path)
        self.e = _FS.get(path)
        if self.e is None:
            raise FileNotFoundError(self.path)
        self.pos = 0
        _FS.log.append(('overwrite', self.path))

    def seek(self, off, whence=0):
        if whence == 0:
            self.pos = off
        elif whence == 1:
            self.pos += off
        else:
            raise Inconclusive('seek whence')

    def read(self, n):
        if self.pos == 8 and n == 2:
            self.pos += 2
            return self.HLEN.to_bytes(2, 'little')
        if self.pos == 0 and n == 6:
            self.pos += 6
            return b'\x93NUMPY'
        if self.pos == 6 and n == 2:
            self.pos += 2
            return b'\x01\x00'
        if self.pos == 10 and n == self.HLEN:
            self.pos += n
            d = "{'descr': %r, 'fortran_order': False, 'shape': %r, }" % (
                _np.lib.format.dtype_to_descr(self.e.hdr_dtype), tuple(self.e.hdr_shape))
            return d.encode()
        raise Inconclusive('raw read at %s' % self.pos)

    def write(self, tok):
        if not isinstance(tok, snp.BytesToken):
            raise Inconclusive('raw bytes written into npy file')
        start = self.pos - 10 - self.HLEN
        isz = self.e.hdr_dtype.itemsize
        n = tok.arr.size
        if start < 0 or start % isz != 0 or tok.dtype.itemsize != isz:
            self.e.corrupt = True
            self.pos += n * tok.dtype.itemsize
            return
        off = start // isz
        flat = self.e.arr.a.reshape(-1)
        if off + n > flat.shape[0]:
            # writes past the end grow the file: size no longer matches the header
            self.e.corrupt = True
        else:
            src = tok.arr.astype(self.e.hdr_dtype) if tok.dtype == self.e.hdr_dtype else None
            if src is None:
                # same item size, different dtype: bytes reinterpreted -> unconstrained values
                self.e.corrupt = True
            else:
                flat[off:off + n] = src.a.reshape(-1)
        self.pos += n * isz

    def close(self):
        pass

    def __enter__(self):
        return self

    def __exit__(self, *a):
        return False


class Blob(list):
    """File content as a list of chunk tokens; falsy when it holds no byte."""
    def __bool__(self):
        return _b.any(_b.bool(t) for t in self)


class BinReadFile(object):
    """Reader over a 'bin' entry: the first read returns the whole content, then EOF."""
    def __init__(self, e):
        self.items = Blob(e.content)
        self.pos = 0

    def read(self, n=-1):
        if self.pos == 0:
            self.pos = 1
            return self.items
        return b''

    def close(self):
        pass

    def __enter__(self):
        return self

    def __exit__(self, *a):
        return False


class TextWriteFile(io.StringIO):
    """Text file opened for writing: content is stored in the virtual file system on close."""
    def __init__(self, path, mode, newline=None):
        io.StringIO.__init__(self, newline=newline)
        self.path = str(path)
        e = _FS.get(path)
        if 'a' in mode and e is not None:
            self.write(e.text)
        _write_entry(self.path, Entry('text', text=''))

    def close(self):
        if not self.closed:
            _FS.entries[self.path] = Entry('text', text=self.getvalue())
        io.StringIO.close(self)

    def __exit__(self, *a):
        self.close()
        return False


def TextReadFile(path, newline=None):
    e = _FS.get(path)
    if e is None:
        raise FileNotFoundError("[Errno 2] No such file or directory: '%s'" % path)
    if e.kind != 'text':
        raise Inconclusive('text read of non-text file %s' % path)
    return io.StringIO(e.text, newline=newline)


def vopen(path, mode='r', **kw):
    p = str(path)
    if mode in ('wb',):
        return NpyWriterFile(p)
    if mode in ('r+b', 'rb+'):
        return NpyRawFile(p)
    if mode in ('w', 'w+', 'a'):
        return TextWriteFile(p, mode, newline=kw.get('newline'))
    if mode in ('r', 'rt'):
        return TextReadFile(p, newline=kw.get('newline'))
    if mode == 'rb':
        e = _FS.get(p)
        if e is None:
            raise FileNotFoundError(p)
        if e.kind == 'npy':
            f = NpyRawFile.__new__(NpyRawFile)
            f.path, f.e, f.pos = p, e, 0
            return f
        if e.kind == 'bin':
            return BinReadFile(e)
        raise Inconclusive('binary read of %s' % p)
    raise Inconclusive('open mode %r' % mode)


# ------------------------------------------------------------------------------------------
# mtscomp.Reader contract stub
# ------------------------------------------------------------------------------------------

class _CData(object):
    def __init__(self, name):
        self.name = name

    def close(self):
        pass


class MtscompReaderStub(object):
    """Honours the documented contract of mtscomp.Reader: reader[int] -> 1-D row,
    reader[slice] -> rows [i0:i1) (negative bounds wrapped, clipped), lists unsupported.
    The decoder itself is outside the claim."""
    def __init__(self, n_threads=1, **kw):
        self.n_threads = n_threads
        self.pool = None
        self.cache_size = 10

    def open(self, path, cmeta=None):
        e = _FS.get(path)
        if e is None or e.kind != 'cbin':
            raise FileNotFoundError(str(path))
        self.configure(e.arr, e.sample_rate, e.chunk_bounds, e.batch_size, str(path))

    def configure(self, arr, sample_rate, chunk_bounds, batch_size, name):
        self._arr = arr
        self.n_samples, self.n_channels = arr.shape
        self.shape = arr.shape
        self.ndim = 2
        self.dtype = arr.dtype
        self.sample_rate = sample_rate
        self.chunk_bounds = list(chunk_bounds)
        self.n_chunks = len(self.chunk_bounds) - 1
        self.batch_size = batch_size
        # n_batches = ceil(n_chunks / batch_size)
        nb = (self.n_chunks + batch_size - 1) // batch_size
        self.n_batches = nb
        self.cdata = _CData(name)
        return self

    def start_thread_pool(self):
        self.pool = object()
        return self.pool

    def stop_thread_pool(self):
        self.pool = None

    def set_cache_size(self, n=None):
        pass

    def decompress_chunks(self, chunk_ids, pool=None):
        assert pool
        return {}

    def close(self):
        pass

    def __getitem__(self, item):
        from .builtins_ import symint
        if isinstance(item, slice):
            if item.step not in (None, 1):
                raise Inconclusive('mtscomp stub: slice step')
            return self._arr[item.start:item.stop]
        if isinstance(item, tuple):
            if len(item) == 1:
                return self[item[0]]
            raise Inconclusive('mtscomp stub: tuple index')
        if isinstance(item, symint):
            return self._arr[item]
        if isinstance(item, (list, snp.ndarray)):
            raise NotImplementedError('Indexing with multiple values is currently unsupported.')
        return snp.zeros((0, self.n_channels), self.dtype)


