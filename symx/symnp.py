"""symx.symnp -- a model of the NumPy subset phylib uses, over Sym scalars.

Concrete-shape arrays are backed by a real NumPy *object* array (so shape handling,
broadcasting, views/aliasing and fancy-index geometry are NumPy's own) plus a dtype tag.
Fully concrete operands are delegated to real NumPy.  Value-dependent output shapes fork
through the engine.  Lambda arrays (unbounded dimensions) live in symx.lam and subclass
ndarray.
"""
import builtins as _b
import itertools
import operator
import z3
import numpy as _np

from . import core
from .core import (Sym, SymInt, SymReal, SymBool, is_sym, ite, sand, sor, snot, Inconclusive)
from .builtins_ import symint, symfloat

# re-exported numpy names (types / constants)
newaxis = None
nan = _np.nan
inf = _np.inf
pi = _np.pi
generic = (_np.generic, Sym)
integer = _np.integer
floating = _np.floating
bool_ = _np.bool_
int8, int16, int32, int64 = _np.int8, _np.int16, _np.int32, _np.int64
uint8, uint16, uint32, uint64 = _np.uint8, _np.uint16, _np.uint32, _np.uint64
float32, float64 = _np.float32, _np.float64
errstate = _np.errstate
index_exp = _np.index_exp
s_ = _np.s_


def dtype(x):
    return _dt(x)


def _dt(d):
    if d is None:
        return None
    if d is symint or d is _b.int:
        return _np.dtype('int64')
    if d is symfloat or d is _b.float:
        return _np.dtype('float64')
    if d is _b.bool:
        return _np.dtype('bool')
    return _np.dtype(d)


def _strip(v):
    """Raw element: Sym without scalar dtype tag / python scalar."""
    if isinstance(v, Sym):
        if v.dt is not None:
            return type(v)(v.term, None)
        return v
    if isinstance(v, _np.generic):
        return v.item()
    return v


def _scalar_dt(v):
    if isinstance(v, SymBool):
        return _np.dtype('bool')
    if isinstance(v, Sym):
        if v.dt is not None:
            return v.dt
        return _np.dtype('int64') if isinstance(v, SymInt) else _np.dtype('float64')
    if isinstance(v, _np.generic):
        return v.dtype
    if isinstance(v, _b.bool):
        return _np.dtype('bool')
    if isinstance(v, _b.int):
        return _np.dtype('int64')
    if isinstance(v, _b.float):
        return _np.dtype('float64')
    raise TypeError('unsupported element %r' % (v,))


def cast_elem(v, dt):
    """Value of raw element v after conversion to dtype dt (raw result)."""
    k = dt.kind
    if isinstance(v, Sym):
        if k == 'b':
            return v if isinstance(v, SymBool) else (v != 0)
        if isinstance(v, SymBool):
            v = v._num()
        if k in 'iu':
            if isinstance(v, SymReal):
                t = v.term
                v = SymInt(z3.If(t >= 0, z3.ToInt(t), -z3.ToInt(-t)))
            return SymInt(core.wrap_int(v.term, dt))
        if k == 'f':
            if isinstance(v, SymInt):
                return SymReal(z3.ToReal(v.term))
            return SymReal(v.term)
        raise TypeError(dt)
    if k == 'O':
        return v
    if isinstance(v, _b.float) and k in 'iu' and v != v:
        r = _np.array(v).astype(dt)
    else:
        with _np.errstate(all='ignore'):
            r = _np.asarray(v).astype(dt)
    return r.item()


def cast_scalar(v, dt):
    dt = _dt(dt)
    return mkscalar(cast_elem(_strip(v), dt), dt)


def mkscalar(v, dt):
    if isinstance(v, SymBool):
        return v
    if isinstance(v, Sym):
        return type(v)(v.term, dt)
    if dt.kind == 'O':
        return v
    return dt.type(v)


def round_scalar(x):
    """round-half-even of a symbolic real, as an integer-valued scalar."""
    t = x.term
    fl = z3.ToInt(t)
    frac = t - z3.ToReal(fl)
    r = z3.If(frac < z3.RealVal('1/2'), fl,
              z3.If(frac > z3.RealVal('1/2'), fl + 1,
                    z3.If(fl % 2 == 0, fl, fl + 1)))
    return SymInt(r)


def _obj(shape):
    return _np.empty(shape, dtype=object)


def _fromlist(lst, shape):
    a = _obj(int(_np.prod(shape)) if len(shape) else 1)
    for i, v in enumerate(lst):
        a[i] = v
    return a.reshape(shape)


class ndarray(object):
    __array_priority__ = 2000
    __hash__ = None

    def __init__(self, a, dt):
        assert isinstance(a, _np.ndarray) and a.dtype == object, type(a)
        self.a = a
        self.dtype = _dt(dt)

    # -- basic attributes --------------------------------------------------------
    @property
    def shape(self):
        return self.a.shape

    @property
    def ndim(self):
        return self.a.ndim

    @property
    def size(self):
        return self.a.size

    @property
    def T(self):
        return ndarray(self.a.T, self.dtype)

    @property
    def flat(self):
        return iter(self.ravel())

    @property
    def itemsize(self):
        return self.dtype.itemsize

    @property
    def nbytes(self):
        return self.dtype.itemsize * self.size

    def __len__(self):
        if self.a.ndim == 0:
            raise TypeError('len() of unsized object')
        return self.a.shape[0]

    def __iter__(self):
        if self.a.ndim == 0:
            raise TypeError('iteration over a 0-d array')
        for i in range(self.a.shape[0]):
            yield self[i]

    def __repr__(self):
        return 'symarray(%s, dtype=%s)' % (self.a.tolist(), self.dtype)

    def is_conc(self):
        for v in self.a.flat:
            if isinstance(v, Sym):
                return False
        return True

    def real(self):
        """Real NumPy array (requires concrete contents)."""
        if self.a.size == 0:
            return _np.empty(self.a.shape, self.dtype)
        with _np.errstate(all='ignore'):
            return _np.array(self.a.tolist(), dtype=self.dtype).reshape(self.a.shape)

    def tolist(self):
        def conv(x):
            if isinstance(x, list):
                return [conv(y) for y in x]
            return x
        return conv(self.a.tolist())

    def item(self, *args):
        if args:
            return _strip(self.a.item(*args))
        return _strip(self.a.item())

    def __bool__(self):
        if self.a.size == 1:
            return _b.bool(self.a.reshape(-1)[0])
        if self.a.size == 0:
            return False
        raise ValueError('The truth value of an array with more than one element is ambiguous. '
                         'Use a.any() or a.all()')

    def __index__(self):
        if self.a.size == 1 and self.dtype.kind in 'iu':
            return operator.index(self.a.reshape(-1)[0])
        raise TypeError('only integer scalar arrays can be converted to a scalar index')

    def __symint__(self):
        if self.a.size != 1:
            raise TypeError('only length-1 arrays can be converted to Python scalars')
        return symint(mkscalar(self.a.reshape(-1)[0], self.dtype))

    def __symfloat__(self):
        if self.a.size != 1:
            raise TypeError('only length-1 arrays can be converted to Python scalars')
        return symfloat(mkscalar(self.a.reshape(-1)[0], self.dtype))

    # -- indexing ------------------------------------------------------------------
    def _normkey(self, key):
        if isinstance(key, tuple):
            return tuple(self._normkey1(k) for k in key)
        return self._normkey1(key)

    def _normkey1(self, k):
        if isinstance(k, ndarray):
            if k.dtype.kind == 'b':
                return _np.array([_b.bool(v) for v in k.a.flat], dtype=bool).reshape(k.shape)
            if k.dtype.kind not in 'iu':
                raise IndexError('arrays used as indices must be of integer (or boolean) type')
            return _np.array([operator.index(v) for v in k.a.flat], dtype=_np.int64).reshape(k.shape)
        if isinstance(k, SymBool):
            return _b.bool(k)
        if isinstance(k, SymInt):
            return operator.index(k)
        if isinstance(k, SymReal):
            raise IndexError('only integers, slices are valid indices')
        if isinstance(k, slice):
            def ix(v):
                return operator.index(v) if isinstance(v, Sym) else v
            return slice(ix(k.start), ix(k.stop), ix(k.step))
        if isinstance(k, list):
            return self._normkey1(asarray(k)) if _b.any(isinstance(v, (Sym, ndarray)) for v in k) else k
        return k

    def __getitem__(self, key):
        key = self._normkey(key)
        r = self.a[key]
        if isinstance(r, _np.ndarray) and r.dtype == object:
            return ndarray(r, self.dtype)
        return mkscalar(r, self.dtype)

    def __setitem__(self, key, value):
        key = self._normkey(key)
        dt = self.dtype
        if isinstance(value, ndarray):
            if value.dtype == dt:
                v = value.a
            else:
                v = value.astype(dt).a
        elif isinstance(value, (list, tuple)):
            v = asarray(value).astype(dt).a
        elif isinstance(value, _np.ndarray):
            v = _wrap(value).astype(dt).a
        else:
            v = cast_elem(_strip(value), dt)
        self.a[key] = v

    # -- conversion ------------------------------------------------------------------
    def astype(self, dt, copy=True):
        dt = _dt(dt)
        if not copy and dt == self.dtype:
            return self
        if self.is_conc():
            with _np.errstate(all='ignore'):
                return _wrap(self.real().astype(dt))
        out = _obj(self.shape)
        for idx, v in _np.ndenumerate(self.a):
            out[idx] = cast_elem(v, dt)
        return ndarray(out, dt)

    def copy(self):
        return ndarray(self.a.copy(), self.dtype)

    def view(self, *a, **k):
        return ndarray(self.a.view(), self.dtype)

    def reshape(self, *shape, **kw):
        if len(shape) == 1 and isinstance(shape[0], (tuple, list)):
            shape = tuple(shape[0])
        shape = tuple(operator.index(s) for s in shape)
        return ndarray(self.a.reshape(shape), self.dtype)

    def ravel(self):
        return ndarray(self.a.ravel(), self.dtype)

    def flatten(self):
        return ndarray(self.a.flatten(), self.dtype)

    def squeeze(self, axis=None):
        return ndarray(self.a.squeeze(axis), self.dtype)

    def transpose(self, *axes):
        if len(axes) == 1 and isinstance(axes[0], (tuple, list)):
            axes = tuple(axes[0])
        return ndarray(self.a.transpose(*axes), self.dtype)

    def swapaxes(self, a1, a2):
        return ndarray(self.a.swapaxes(a1, a2), self.dtype)

    def tobytes(self, order='C'):
        return BytesToken(self.copy(), self.dtype)

    @property
    def data(self):
        return BytesToken(self.copy(), self.dtype)

    @property
    def flags(self):
        return self.a.flags

    # -- arithmetic --------------------------------------------------------------------
    def __add__(self, o): return _ew2('add', self, o)
    def __radd__(self, o): return _ew2('add', o, self)
    def __sub__(self, o): return _ew2('sub', self, o)
    def __rsub__(self, o): return _ew2('sub', o, self)
    def __mul__(self, o): return _ew2('mul', self, o)
    def __rmul__(self, o): return _ew2('mul', o, self)
    def __truediv__(self, o): return _ew2('truediv', self, o)
    def __rtruediv__(self, o): return _ew2('truediv', o, self)
    def __floordiv__(self, o): return _ew2('floordiv', self, o)
    def __rfloordiv__(self, o): return _ew2('floordiv', o, self)
    def __mod__(self, o): return _ew2('mod', self, o)
    def __rmod__(self, o): return _ew2('mod', o, self)
    def __pow__(self, o): return _ew2('pow', self, o)
    def __rpow__(self, o): return _ew2('pow', o, self)
    def __lt__(self, o): return _ew2('lt', self, o)
    def __le__(self, o): return _ew2('le', self, o)
    def __gt__(self, o): return _ew2('gt', self, o)
    def __ge__(self, o): return _ew2('ge', self, o)
    def __and__(self, o): return _ew2('and_', self, o)
    def __rand__(self, o): return _ew2('and_', o, self)
    def __or__(self, o): return _ew2('or_', self, o)
    def __ror__(self, o): return _ew2('or_', o, self)
    def __xor__(self, o): return _ew2('xor', self, o)

    def __eq__(self, o):
        if not _is_operand(o):
            return ndarray(_fromlist([False] * self.size, self.shape), 'bool')
        return _ew2('eq', self, o)

    def __ne__(self, o):
        if not _is_operand(o):
            return ndarray(_fromlist([True] * self.size, self.shape), 'bool')
        return _ew2('ne', self, o)

    def _inplace(self, op, o):
        # casting check by real NumPy on dummies ('same_kind' rule of in-place ufuncs)
        z = _np.ones(1, self.dtype)
        with _np.errstate(all='ignore'):
            getattr(operator, 'i' + op.rstrip('_'))(z, _dummy(o))
        r = _ew2(op, self, o)
        self.a[...] = r.astype(self.dtype).a if r.dtype != self.dtype else r.a
        return self

    def __iadd__(self, o): return self._inplace('add', o)
    def __isub__(self, o): return self._inplace('sub', o)
    def __imul__(self, o): return self._inplace('mul', o)
    def __itruediv__(self, o): return self._inplace('truediv', o)
    def __ifloordiv__(self, o): return self._inplace('floordiv', o)

    def __neg__(self):
        return _ew1('neg', self)

    def __pos__(self):
        return self.copy()

    def __abs__(self):
        return _ew1('abs', self)

    def __invert__(self):
        return _ew1('invert', self)

    # -- reductions ----------------------------------------------------------------------
    def max(self, axis=None, **kw): return amax(self, axis)
    def min(self, axis=None, **kw): return amin(self, axis)
    def argmax(self, axis=None): return argmax(self, axis)
    def argmin(self, axis=None): return argmin(self, axis)
    def sum(self, axis=None, **kw): return sum(self, axis)
    def mean(self, axis=None): return mean(self, axis)
    def any(self, axis=None): return any(self, axis)
    def all(self, axis=None): return all(self, axis)
    def cumsum(self, axis=None): return cumsum(self, axis)
    def nonzero(self): return nonzero(self)
    def dot(self, o): return dot(self, o)
    def clip(self, lo, hi): return clip(self, lo, hi)

    def fill(self, v):
        self[...] = v

    def __matmul__(self, o):
        return matmul(self, o)


class memmap(ndarray):
    """isinstance target for np.memmap (vfs-backed arrays); called with a path it maps a
    flat binary file of the virtual file system."""
    _mmap = None

    def __new__(cls, *args, **kw):
        from pathlib import PurePath
        if args and isinstance(args[0], (str, PurePath)):
            from . import vfs
            return vfs.np_memmap(*args, **kw)
        return object.__new__(cls)


class BytesToken(object):
    """Result of ndarray.tobytes()/.data: the element sequence with its dtype."""
    def __init__(self, arr, dt):
        self.arr = arr
        self.dtype = dt

    def __len__(self):
        return self.arr.size * self.dtype.itemsize


def _is_operand(o):
    return isinstance(o, (ndarray, Sym, _b.int, _b.float, _b.bool, _np.generic, list, tuple,
                          _np.ndarray))


def _wrap(r):
    """real numpy array / scalar -> symnp value"""
    if isinstance(r, _np.ndarray):
        if r.dtype == object:
            return ndarray(r, object)
        a = _obj(r.shape)
        if r.size:
            a[...] = _np.array(r.tolist(), dtype=object).reshape(r.shape) if r.ndim else r.item()
        return ndarray(a, r.dtype)
    return r


def _dummy(o):
    if isinstance(o, ndarray):
        return _np.ones(1, o.dtype)
    if isinstance(o, _np.ndarray):
        return _np.ones(1, o.dtype)
    if isinstance(o, (list, tuple)):
        return _np.ones(1, asarray(o).dtype)
    if isinstance(o, SymBool):
        return _np.bool_(True)
    if isinstance(o, Sym):
        if o.dt is not None:
            return o.dt.type(1)
        return 1 if isinstance(o, SymInt) else 1.5
    if isinstance(o, _np.generic):
        return o.dtype.type(1)
    if isinstance(o, _b.bool):
        return True
    if isinstance(o, _b.int):
        return 1
    if isinstance(o, _b.float):
        return 1.5
    raise TypeError('unsupported operand %r' % (o,))


def _objarr(o):
    """object array (possibly 0-d) of raw elements for operand o"""
    if isinstance(o, ndarray):
        return o.a
    if isinstance(o, _np.ndarray):
        return _wrap(o).a
    if isinstance(o, (list, tuple)):
        return asarray(o).a
    a = _obj(())
    a[()] = _strip(o)
    return a


_PYOPS = {
    'add': operator.add, 'sub': operator.sub, 'mul': operator.mul,
    'truediv': operator.truediv, 'floordiv': operator.floordiv, 'mod': operator.mod,
    'pow': operator.pow, 'lt': operator.lt, 'le': operator.le, 'gt': operator.gt,
    'ge': operator.ge, 'eq': operator.eq, 'ne': operator.ne,
    'and_': operator.and_, 'or_': operator.or_, 'xor': operator.xor,
}


def _has_sym(o):
    if isinstance(o, Sym):
        return True
    if isinstance(o, ndarray):
        return not o.is_conc()
    if isinstance(o, (list, tuple)):
        return _b.any(_has_sym(v) for v in o)
    return False


def _toreal(o):
    if isinstance(o, ndarray):
        return o.real()
    if isinstance(o, (list, tuple)):
        return asarray(o).real()
    return o


def _ew2(op, x, y):
    from . import lam
    if isinstance(x, lam.LArr) or isinstance(y, lam.LArr):
        return lam.ew2(op, x, y)
    if not _is_operand(x) or not _is_operand(y):
        return NotImplemented
    if not _has_sym(x) and not _has_sym(y):
        with _np.errstate(all='ignore'):
            r = _PYOPS[op](_toreal(x), _toreal(y))
        return _wrap(r)
    with _np.errstate(all='ignore'):
        rdt = _np.asarray(_PYOPS[op](_dummy(x), _dummy(y))).dtype
    ax, ay = _objarr(x), _objarr(y)
    f = _PYOPS[op]
    bx, by = _np.broadcast_arrays(ax, ay)
    out = _obj(bx.shape)
    if op in ('truediv',):
        def g(u, v):
            if not isinstance(u, Sym) and not isinstance(v, Sym):
                with _np.errstate(all='ignore'):
                    return (_np.float64(u) / _np.float64(v)).item()
            if not isinstance(v, Sym) and v == 0:
                # x / 0 with symbolic x: nan if x == 0, +-inf otherwise (forks)
                if _b.bool(u == 0):
                    return nan
                return inf if _b.bool(u > 0) else -inf
            if not isinstance(u, Sym) and (u != u or u in (inf, -inf)):
                if u != u:
                    return nan
                return u if _b.bool(v > 0) else (-u if _b.bool(v < 0) else nan)
            if not isinstance(v, Sym) and (v != v):
                return nan
            return cast_elem(f(u, v), rdt)
    elif op in ('and_', 'or_', 'xor') and rdt.kind == 'b':
        def g(u, v):
            if isinstance(v, Sym) and not isinstance(u, Sym):
                u, v = v, u
            return f(u, v)
    else:
        def g(u, v):
            return cast_elem(f(u, v), rdt)
    core.ARRAY_CTX[0] = True
    try:
        for idx in _np.ndindex(bx.shape):
            out[idx] = g(bx[idx], by[idx])
    finally:
        core.ARRAY_CTX[0] = False
    return ndarray(out, rdt)


def _ew1(op, x):
    if x.is_conc():
        r = x.real()
        with _np.errstate(all='ignore'):
            r = {'neg': operator.neg, 'abs': operator.abs, 'invert': operator.invert}[op](r)
        return _wrap(r)
    out = _obj(x.shape)
    dt = x.dtype
    for idx, v in _np.ndenumerate(x.a):
        if op == 'neg':
            r = -v
        elif op == 'abs':
            r = _b.abs(v)
        else:
            r = ~v if isinstance(v, SymBool) else (not v)
        out[idx] = cast_elem(r, dt)
    return ndarray(out, dt)


# ------------------------------------------------------------------------------------------
# creation
# ------------------------------------------------------------------------------------------

def _shape(shape):
    if isinstance(shape, (tuple, list)):
        return tuple(shape)
    return (shape,)


def _sym_shape(shape):
    return _b.any(isinstance(s, Sym) for s in shape)


def full(shape, v, dtype=None):
    shape = _shape(shape)
    dt = _dt(dtype) or _scalar_dt(v)
    if _sym_shape(shape) and core.eng().concretize_shapes:
        shape = tuple(operator.index(d) for d in shape)
    if _sym_shape(shape):
        from . import lam
        return lam.const(shape, v, dt)
    a = _obj(shape)
    a[...] = cast_elem(_strip(v), dt)
    return ndarray(a, dt)


def zeros(shape, dtype=float, order='C'):
    return full(shape, 0, _dt(dtype))


def ones(shape, dtype=float):
    return full(shape, 1, _dt(dtype))


def empty(shape, dtype=float):
    return full(shape, 0, _dt(dtype))


def zeros_like(x, dtype=None):
    x = asarray(x)
    return zeros(x.shape, dtype or x.dtype)


def ones_like(x, dtype=None):
    x = asarray(x)
    return ones(x.shape, dtype or x.dtype)


def empty_like(x, dtype=None):
    return zeros_like(x, dtype)


def ceil(x):
    from .builtins_ import symceil
    if isinstance(x, Sym):
        return float(symceil(x)) if not isinstance(symceil(x), Sym) else symceil(x)
    x = asarray(x)
    if x.is_conc():
        return _wrap(_np.ceil(x.real())) if x.ndim else _np.ceil(x.real())[()]
    raise Inconclusive('ceil of a symbolic array')


def floor(x):
    from .builtins_ import symfloor
    if isinstance(x, Sym):
        return symfloor(x)
    x = asarray(x)
    if x.is_conc():
        return _wrap(_np.floor(x.real())) if x.ndim else _np.floor(x.real())[()]
    raise Inconclusive('floor of a symbolic array')


def hypot(x, y):
    x, y = asarray(x), asarray(y)
    if not (x.is_conc() and y.is_conc()):
        raise Inconclusive('hypot of symbolic values (irrational)')
    with _np.errstate(all='ignore'):
        return _wrap(_np.hypot(x.real(), y.real()))


def linspace(start, stop, num=50, endpoint=True):
    if _b.any(isinstance(a, Sym) for a in (start, stop, num)):
        raise Inconclusive('linspace with symbolic arguments')
    return _wrap(_np.linspace(start, stop, num, endpoint=endpoint))


def eye(n, dtype=float):
    return _wrap(_np.eye(operator.index(n), dtype=_dt(dtype)))


def arange(*args, dtype=None):
    if _b.any(isinstance(a, Sym) for a in args):
        if len(args) == 1:
            start, stop = 0, args[0]
        else:
            start, stop = args[0], args[1]
            if len(args) == 3 and args[2] != 1:
                raise Inconclusive('arange with symbolic bounds and step')
        from . import lam
        n = stop - start
        n = ite(n > 0, n, 0)
        dt = _dt(dtype) or _np.dtype('int64')
        return lam.LArr((n,), dt, lambda idx: start + idx[0])
    return _wrap(_np.arange(*args, dtype=_dt(dtype)))


def _infer(lst):
    """flatten nested list -> (flat raw elements, shape, dtype)"""
    def shp(x):
        if isinstance(x, ndarray):
            return x.shape
        if isinstance(x, _np.ndarray):
            return x.shape
        if isinstance(x, (list, tuple)):
            if len(x) == 0:
                return (0,)
            s0 = shp(x[0])
            for y in x[1:]:
                if shp(y) != s0:
                    raise ValueError('inhomogeneous shape')
            return (len(x),) + s0
        return ()

    shape = shp(lst)
    flat = []
    dts = []

    def walk(x):
        if isinstance(x, ndarray):
            dts.append(x.dtype)
            flat.extend(x.a.ravel().tolist())
        elif isinstance(x, _np.ndarray):
            dts.append(x.dtype)
            flat.extend(x.ravel().tolist())
        elif isinstance(x, (list, tuple)):
            for y in x:
                walk(y)
        else:
            if isinstance(x, Sym) and x.dt is not None or isinstance(x, _np.generic):
                dts.append(_scalar_dt(x))
            else:
                dts.append(_scalar_dt(x))
            flat.append(_strip(x))
    walk(lst)
    if not dts:
        dt = _np.dtype('float64')
    else:
        dt = _np.result_type(*set(dts))
    return flat, shape, dt


def asarray(x, dtype=None, order=None):
    dt = _dt(dtype)
    if isinstance(x, ndarray):
        if dt is None or dt == x.dtype:
            return x
        return x.astype(dt)
    if isinstance(x, _np.ndarray):
        r = _wrap(x)
        return r if dt is None or dt == r.dtype else r.astype(dt)
    if isinstance(x, (list, tuple)):
        if not _has_sym(x) and not _has_nd(x):
            return _wrap(_np.asarray(x, dtype=dt))
        flat, shape, idt = _infer(x)
        a = _fromlist(flat, shape) if flat else _obj(shape)
        r = ndarray(a, idt)
        # elements must be consistent with idt
        r = _recast(r, idt)
        return r if dt is None or dt == idt else r.astype(dt)
    if isinstance(x, range):
        return _wrap(_np.asarray(x, dtype=dt))
    if hasattr(x, '__next__') or isinstance(x, (dict,)):
        raise TypeError('unsupported array input')
    # scalar
    sdt = _scalar_dt(x)
    a = _obj(())
    a[()] = _strip(x)
    r = ndarray(a, sdt)
    return r if dt is None or dt == sdt else r.astype(dt)


def _has_nd(x):
    if isinstance(x, ndarray):
        return True
    if isinstance(x, (list, tuple)):
        return _b.any(_has_nd(v) for v in x)
    return False


def _recast(r, dt):
    out = _obj(r.shape)
    for idx, v in _np.ndenumerate(r.a):
        out[idx] = cast_elem(v, dt)
    return ndarray(out, dt)


def array(x, dtype=None, copy=True):
    r = asarray(x, dtype)
    if r is x:
        r = r.copy()
    return r


def ascontiguousarray(x, dtype=None):
    return asarray(x, dtype)


def asanyarray(x, dtype=None):
    return asarray(x, dtype)


def atleast_1d(x):
    x = asarray(x)
    return x if x.ndim >= 1 else x.reshape(1)


def atleast_2d(x):
    x = asarray(x)
    return ndarray(_np.atleast_2d(x.a), x.dtype)


def atleast_3d(x):
    x = asarray(x)
    return ndarray(_np.atleast_3d(x.a), x.dtype)


def squeeze(x, axis=None):
    return asarray(x).squeeze(axis)


def reshape(x, shape):
    return asarray(x).reshape(shape)


def transpose(x, axes=None):
    x = asarray(x)
    return ndarray(_np.transpose(x.a, axes), x.dtype)


def swapaxes(x, a, b):
    return asarray(x).swapaxes(a, b)


def ravel(x):
    return asarray(x).ravel()


def _common_dt(arrs):
    return _np.result_type(*[a.dtype for a in arrs])


def concatenate(arrs, axis=0):
    from . import lam
    arrs = [asarray(a) for a in arrs]
    if _b.any(isinstance(a, lam.LArr) for a in arrs):
        return lam.concatenate(arrs, axis)
    if not arrs:
        raise ValueError('need at least one array to concatenate')
    dt = _common_dt(arrs)
    arrs = [a if a.dtype == dt else a.astype(dt) for a in arrs]
    return ndarray(_np.concatenate([a.a for a in arrs], axis=axis), dt)


def vstack(arrs):
    from . import lam
    arrs = [asarray(a) for a in arrs]
    if _b.any(isinstance(a, lam.LArr) for a in arrs):
        return lam.concatenate([lam.atleast_2d(a) for a in arrs], 0)
    if not arrs:
        raise ValueError('need at least one array to concatenate')
    return concatenate([atleast_2d(a) for a in arrs], 0)


def hstack(arrs):
    arrs = [atleast_1d(a) for a in arrs]
    if arrs and arrs[0].ndim == 1:
        return concatenate(arrs, 0)
    return concatenate(arrs, 1)


def dstack(arrs):
    arrs = [atleast_3d(a) for a in arrs]
    return concatenate(arrs, 2)


def stack(arrs, axis=0):
    arrs = [asarray(a) for a in arrs]
    dt = _common_dt(arrs)
    arrs = [a if a.dtype == dt else a.astype(dt) for a in arrs]
    return ndarray(_np.stack([a.a for a in arrs], axis=axis), dt)


class _RClass(object):
    def __getitem__(self, key):
        if not isinstance(key, tuple):
            key = (key,)
        return concatenate([atleast_1d(asarray(k)) for k in key])


class _CClass(object):
    def __getitem__(self, key):
        if not isinstance(key, tuple):
            key = (key,)
        cols = []
        for k in key:
            k = asarray(k)
            if k.ndim == 1:
                k = k.reshape(-1, 1)
            cols.append(k)
        return concatenate(cols, 1)


r_ = _RClass()
c_ = _CClass()


def tile(x, reps):
    x = asarray(x)
    return ndarray(_np.tile(x.a, reps), x.dtype)


def ix_(*args):
    out = []
    n = len(args)
    for i, a in enumerate(args):
        a = asarray(a)
        shp = [1] * n
        shp[i] = a.size
        out.append(a.reshape(shp))
    return tuple(out)


# ------------------------------------------------------------------------------------------
# reductions
# ------------------------------------------------------------------------------------------

def _reduce(x, axis, f, out_dt):
    x = asarray(x)
    if axis is None:
        r = f(x.a.ravel().tolist())
        return mkscalar(r, out_dt) if not isinstance(r, ndarray) else r
    a = _np.moveaxis(x.a, axis, -1)
    oshape = a.shape[:-1]
    out = _obj(oshape)
    for idx in _np.ndindex(oshape):
        out[idx] = f(a[idx].tolist())
    return ndarray(out, out_dt)


def _fold_max(lst, ismax):
    if not lst:
        raise ValueError('zero-size array to reduction operation which has no identity')
    r = lst[0]
    for v in lst[1:]:
        c = (v > r) if ismax else (v < r)
        if isinstance(c, SymBool):
            r = _strip(ite(c, v, r))
        elif c:
            r = v
    return r


def _fold_arg(lst, ismax):
    if not lst:
        raise ValueError('attempt to get argmax of an empty sequence')
    r, ri = lst[0], 0
    for i, v in enumerate(lst[1:], 1):
        c = (v > r) if ismax else (v < r)
        if isinstance(c, SymBool):
            r = _strip(ite(c, v, r))
            ri = _strip(ite(c, i, ri))
        elif c:
            r, ri = v, i
    return ri


def amax(x, axis=None, initial=None, **kw):
    x = asarray(x)
    ini = [] if initial is None else [initial]
    return _reduce(x, axis, lambda l: _fold_max(ini + l, True), x.dtype)


def amin(x, axis=None, initial=None, **kw):
    x = asarray(x)
    ini = [] if initial is None else [initial]
    return _reduce(x, axis, lambda l: _fold_max(ini + l, False), x.dtype)


max = amax
min = amin


def argmax(x, axis=None):
    return _reduce(x, axis, lambda l: _fold_arg(l, True), _np.dtype('int64'))


def argmin(x, axis=None):
    return _reduce(x, axis, lambda l: _fold_arg(l, False), _np.dtype('int64'))


def _num(v):
    if isinstance(v, SymBool):
        return v._num()
    if isinstance(v, _b.bool):
        return int(v)
    return v


def _sum_dt(dt):
    if dt.kind == 'b':
        return _np.dtype('int64')
    if dt.kind == 'i':
        return _np.dtype('int64')
    if dt.kind == 'u':
        return _np.dtype('uint64')
    return dt


def sum(x, axis=None, **kw):
    x = asarray(x)
    odt = _sum_dt(x.dtype)
    zero = 0.0 if odt.kind == 'f' else 0

    def f(l):
        r = zero
        for v in l:
            r = r + _num(v)
        return r
    return _reduce(x, axis, f, odt)


def mean(x, axis=None):
    x = asarray(x)
    n = x.size if axis is None else x.shape[axis]
    return sum(x, axis) / float(n) if n else nan


def any(x, axis=None):
    x = asarray(x)

    def f(l):
        syms = [v if isinstance(v, SymBool) else (v != 0) for v in l if isinstance(v, Sym)]
        if _b.any(_b.bool(v) for v in l if not isinstance(v, Sym)):
            return True
        if not syms:
            return False
        return sor(*syms)
    return _reduce(x, axis, f, _np.dtype('bool'))


def all(x, axis=None):
    x = asarray(x)

    def f(l):
        syms = [v if isinstance(v, SymBool) else (v != 0) for v in l if isinstance(v, Sym)]
        if not _b.all(_b.bool(v) for v in l if not isinstance(v, Sym)):
            return False
        if not syms:
            return True
        return sand(*syms)
    return _reduce(x, axis, f, _np.dtype('bool'))


def cumsum(x, axis=None):
    x = asarray(x)
    if axis is None:
        x = x.ravel()
        axis = 0
    odt = _sum_dt(x.dtype)
    a = _np.moveaxis(x.a, axis, -1)
    out = _obj(a.shape)
    for idx in _np.ndindex(a.shape[:-1]):
        r = 0
        for j in range(a.shape[-1]):
            r = r + _num(a[idx + (j,)])
            out[idx + (j,)] = r
    return ndarray(_np.moveaxis(out, -1, axis), odt)


def diff(x, n=1, axis=-1):
    x = asarray(x)
    if x.ndim != 1:
        raise Inconclusive('diff on nd arrays')
    if x.dtype.kind == 'b':
        return x[1:] != x[:-1]
    return x[1:] - x[:-1]


def maximum(x, y):
    return where(asarray(x) >= y, x, y)


def minimum(x, y):
    return where(asarray(x) <= y, x, y)


def abs(x):
    if isinstance(x, (ndarray,)):
        return x.__abs__()
    if isinstance(x, Sym):
        return x.__abs__()
    return _wrap(_np.abs(x))


absolute = abs


def clip(x, lo, hi):
    if not _has_sym(x) and not _has_sym(lo) and not _has_sym(hi):
        return _wrap(_np.clip(_toreal(x), lo, hi))
    return minimum(maximum(x, lo), hi)


def round(x, decimals=0):
    if isinstance(x, SymReal):
        return SymReal(z3.ToReal(round_scalar(x).term), x.dt)
    if isinstance(x, ndarray):
        if x.is_conc():
            return _wrap(_np.round(x.real(), decimals))
        out = _obj(x.shape)
        for idx, v in _np.ndenumerate(x.a):
            if isinstance(v, SymReal):
                out[idx] = SymReal(z3.ToReal(round_scalar(v).term))
            else:
                out[idx] = _np.round(v).item() if not isinstance(v, Sym) else v
        return ndarray(out, x.dtype)
    return _wrap(_np.round(x, decimals))


around = round


def square(x):
    return x * x


def sqrt(x):
    if _has_sym(x):
        raise Inconclusive('sqrt of symbolic value')
    return _wrap(_np.sqrt(_toreal(x)))


def isnan(x):
    x = asarray(x)
    if x.dtype.kind != 'f':
        return full(x.shape, False, 'bool')
    out = _obj(x.shape)
    for idx, v in _np.ndenumerate(x.a):
        out[idx] = False if isinstance(v, Sym) else (v != v)
    return ndarray(out, 'bool')


def isinf(x):
    x = asarray(x)
    if x.dtype.kind != 'f':
        return full(x.shape, False, 'bool')
    out = _obj(x.shape)
    for idx, v in _np.ndenumerate(x.a):
        out[idx] = False if isinstance(v, Sym) else (v in (inf, -inf))
    return ndarray(out, 'bool')


def where(c, x=None, y=None):
    if x is None:
        return nonzero(c)
    c = asarray(c)
    cx, cy = _objarr(x), _objarr(y)
    with _np.errstate(all='ignore'):
        rdt = _np.result_type(_dummy(x), _dummy(y))
    bc, bx, by = _np.broadcast_arrays(c.a, cx, cy)
    out = _obj(bc.shape)
    for idx in _np.ndindex(bc.shape):
        cc = bc[idx]
        if isinstance(cc, Sym):
            out[idx] = cast_elem(_strip(ite(cc, bx[idx], by[idx])), rdt)
        else:
            out[idx] = cast_elem(bx[idx] if cc else by[idx], rdt)
    return ndarray(out, rdt)


def nonzero(x):
    x = asarray(x)
    m = _np.array([_b.bool(v) for v in x.a.flat], dtype=bool).reshape(x.shape)
    return tuple(_wrap(r) for r in _np.nonzero(m))


def flatnonzero(x):
    return nonzero(asarray(x).ravel())[0]


def count_nonzero(x):
    return sum(asarray(x) != 0)


def array_equal(x, y):
    x, y = asarray(x), asarray(y)
    if x.shape != y.shape:
        return False
    return all(x == y)


# ------------------------------------------------------------------------------------------
# sorting / searching / sets
# ------------------------------------------------------------------------------------------

def _argsort_list(lst):
    """Stable insertion sort over forking comparisons -> concrete permutation."""
    order = []
    for i, v in enumerate(lst):
        j = len(order)
        while j > 0 and _b.bool(lst[order[j - 1]] > v):
            j -= 1
        order.insert(j, i)
    return order


def argsort(x, axis=-1, kind=None):
    x = asarray(x)
    if x.ndim != 1:
        raise Inconclusive('argsort nd')
    if x.is_conc():
        return _wrap(_np.argsort(x.real(), kind=kind if kind else None))
    # NOTE: for non-stable kinds NumPy's order among equal keys is unspecified; insertion sort
    # is what NumPy itself uses below 16 elements.
    return _wrap(_np.array(_argsort_list(x.a.tolist()), dtype=_np.int64))


def sort(x, axis=-1, kind=None):
    x = asarray(x)
    return x[argsort(x)]


def unique(x, return_counts=False, return_index=False, return_inverse=False, axis=None):
    if axis is not None:
        x = asarray(x)
        if not x.is_conc():
            raise Inconclusive('unique along an axis of a symbolic array')
        return _wrap(_np.unique(x.real(), axis=axis))
    x = asarray(x).ravel()
    if x.is_conc():
        r = _np.unique(x.real(), return_counts=return_counts, return_index=return_index,
                       return_inverse=return_inverse)
        if isinstance(r, tuple):
            return tuple(_wrap(v) for v in r)
        return _wrap(r)
    if return_index or return_inverse:
        raise Inconclusive('unique with index/inverse')
    lst = x.a.tolist()
    order = _argsort_list(lst)
    vals, counts = [], []
    for i in order:
        if vals and _b.bool(lst[i] == vals[-1]):
            counts[-1] += 1
        else:
            vals.append(lst[i])
            counts.append(1)
    u = ndarray(_fromlist(vals, (len(vals),)), x.dtype)
    if return_counts:
        return u, _wrap(_np.array(counts, dtype=_np.int64))
    return u


def _prove_sorted(lst):
    e = core.eng()
    conds = []
    for a, b in zip(lst[:-1], lst[1:]):
        c = a <= b
        if isinstance(c, SymBool):
            conds.append(c.term)
        elif not c:
            raise Inconclusive('searchsorted on an unsorted array')
    if conds:
        neg = z3.Not(z3.And(*conds))
        if e._check(neg):
            return False
    return True


def _binsearch(al, keys, side):
    """NumPy's binary search (npy_binsearch) replayed with forking comparisons; used when the
    first argument is not provably sorted, where the result is implementation-defined."""
    n = len(al)
    lo, hi = 0, n
    out = []
    last = None
    for k in keys:
        if last is not None:
            if _b.bool(last < k):
                hi = n
            else:
                lo = 0
                hi = hi + 1 if hi < n else n
        last = k
        while lo < hi:
            mid = lo + ((hi - lo) >> 1)
            c = (al[mid] <= k) if side == 'right' else (al[mid] < k)
            if _b.bool(c):
                lo = mid + 1
            else:
                hi = mid
        out.append(lo)
    return out


def searchsorted(a, v, side='left', sorter=None):
    """Count-based (non-forking) model; requires `a` sorted (proved at the call site)."""
    a = asarray(a)
    al = a.a.ravel().tolist()
    scalar = not isinstance(v, (ndarray, list, tuple, _np.ndarray))
    v_ = asarray(v)
    if _b.any(isinstance(t, Sym) for t in al) or not a.is_conc():
        if not _prove_sorted(al):
            r = _binsearch(al, v_.a.ravel().tolist(), side)
            res = _wrap(_np.array(r, dtype=_np.int64).reshape(v_.shape))
            return res if not scalar else res[()]
    elif not v_.is_conc():
        ar = a.real()
        if ar.size > 1 and not _np.all(ar[:-1] <= ar[1:]):
            r = _binsearch(al, v_.a.ravel().tolist(), side)
            res = _wrap(_np.array(r, dtype=_np.int64).reshape(v_.shape))
            return res if not scalar else res[()]
    if a.is_conc() and v_.is_conc():
        r = _np.searchsorted(a.real(), v_.real() if not scalar else v_.real()[()], side)
        return _wrap(r) if not scalar else _np.int64(r)
    out = _obj(v_.shape)
    for idx, x in _np.ndenumerate(v_.a):
        r = 0
        for t in al:
            c = (t <= x) if side == 'right' else (t < x)
            if isinstance(c, SymBool):
                r = r + c._num()
            elif c:
                r = r + 1
        out[idx] = r
    res = ndarray(out, 'int64')
    return res if not scalar else res[()]


def isin(a, b, **kw):
    a_ = asarray(a)
    bl = asarray(b).a.ravel().tolist()
    out = _obj(a_.shape)
    for idx, x in _np.ndenumerate(a_.a):
        cs = []
        hit = False
        for t in bl:
            c = (x == t)
            if isinstance(c, SymBool):
                cs.append(c)
            elif c:
                hit = True
                break
        out[idx] = True if hit else (sor(*cs) if cs else False)
    return ndarray(out, 'bool')


def in1d(a, b, **kw):
    return isin(asarray(a).ravel(), b)


def intersect1d(a, b, assume_unique=False):
    a, b = asarray(a), asarray(b)
    dt = _np.result_type(a.dtype, b.dtype)
    if assume_unique:
        # NumPy's algorithm when uniqueness is promised (wrong on duplicates, exactly as NumPy is)
        aux = sort(concatenate([a.ravel(), b.ravel()]))
        r = aux[:-1][aux[1:] == aux[:-1]]
        return r if r.dtype == dt else r.astype(dt)
    ua = unique(a)
    r = ua[isin(ua, b)]
    return r if r.dtype == dt else r.astype(dt)


def union1d(a, b):
    return unique(concatenate([asarray(a).ravel(), asarray(b).ravel()]))


def setdiff1d(a, b):
    ua = unique(a)
    return ua[~isin(ua, b)]


def bincount(x, weights=None, minlength=0):
    x = asarray(x)
    if x.ndim != 1:
        raise ValueError('object too deep for desired array')
    if x.dtype.kind not in 'iub':
        raise TypeError("Cannot cast array data from %s to dtype('int64') according to the rule "
                        "'safe'" % x.dtype)
    if x.dtype == _np.dtype('uint64'):
        raise TypeError("Cannot cast array data from dtype('uint64') to dtype('int64') "
                        "according to the rule 'safe'")
    if x.is_conc() and (weights is None or not _has_sym(weights)):
        w = None if weights is None else _toreal(asarray(weights))
        return _wrap(_np.bincount(x.real(), weights=w, minlength=operator.index(minlength)))
    xl = x.a.tolist()
    if weights is not None:
        # weighted histogram: the bin of every element is enumerated (counts become concrete)
        xl = [operator.index(v) if isinstance(v, Sym) else v for v in xl]
    else:
        kv = [core.eng().known_value(v.term) if isinstance(v, Sym) else v for v in xl]
        if _b.all(k is not None for k in kv):
            xl = kv
    if not _b.any(isinstance(v, Sym) for v in xl) and (weights is None or not _has_sym(weights)):
        w = None if weights is None else _toreal(asarray(weights))
        return _wrap(_np.bincount(_np.array(xl, dtype=_np.int64), weights=w, minlength=operator.index(minlength)))
    for v in xl:
        if _b.bool(v < 0):
            raise ValueError("'list' argument must have no negative elements")
    n = 0
    if xl:
        n = operator.index(_fold_max(xl, True) + 1)
    n = _b.max(n, operator.index(minlength))
    wl = None if weights is None else asarray(weights).a.tolist()
    if wl is not None and len(wl) != len(xl):
        raise ValueError("The weights and list don't have the same length.")
    out = _obj((n,))
    for k in range(n):
        r = 0 if wl is None else 0.0
        for i, v in enumerate(xl):
            c = (v == k)
            w = 1 if wl is None else wl[i]
            if isinstance(c, SymBool):
                r = r + _strip(ite(c, w, 0 if wl is None else 0.0))
            elif c:
                r = r + w
        out[k] = r
    return ndarray(out, 'int64' if wl is None else 'float64')


def ravel_multi_index(multi, dims, mode='raise', order='C'):
    multi = [asarray(m) for m in multi]
    dims = tuple(operator.index(d) for d in dims)
    if _b.all(m.is_conc() for m in multi):
        return _wrap(_np.ravel_multi_index(tuple(m.real() for m in multi), dims, mode=mode,
                                          order=order))
    for m, d in zip(multi, dims):
        for v in m.a.flat:
            if _b.bool((v < 0) | (v >= d)) if isinstance(v, Sym) else (v < 0 or v >= d):
                raise ValueError('invalid entry in coordinates array')
    r = 0
    for m, d in zip(multi, dims):
        r = r * d + m
    return r


class _AddUfunc(object):
    def at(self, a, idx, b):
        idx = asarray(idx)
        b_ = asarray(b)
        ii = [operator.index(v) for v in idx.a.ravel().tolist()]
        for k, i in enumerate(ii):
            a[i] = a[i] + (b_[k] if b_.ndim else b_[()])

    def __call__(self, x, y, out=None):
        return asarray(x) + y

    def reduce(self, x, axis=0):
        return sum(x, axis)


add = _AddUfunc()


# ------------------------------------------------------------------------------------------
# linear algebra
# ------------------------------------------------------------------------------------------

def _fdt(*arrs):
    return _np.result_type(*[a.dtype for a in arrs])


def dot(x, y):
    x, y = asarray(x), asarray(y)
    if x.is_conc() and y.is_conc():
        return _wrap(_np.dot(x.real(), y.real()))
    dt = _fdt(x, y)
    if x.ndim == 2 and y.ndim == 2:
        n, k = x.shape
        k2, m = y.shape
        if k != k2:
            raise ValueError('shapes %s and %s not aligned' % (x.shape, y.shape))
        out = _obj((n, m))
        for i in range(n):
            for j in range(m):
                r = 0
                for t in range(k):
                    r = r + _mulz(x.a[i, t], y.a[t, j])
                out[i, j] = cast_elem(r, dt)
        return ndarray(out, dt)
    if x.ndim == 1 and y.ndim == 1:
        r = 0
        for u, v in zip(x.a.tolist(), y.a.tolist()):
            r = r + _mulz(u, v)
        return mkscalar(cast_elem(r, dt), dt)
    if x.ndim == 2 and y.ndim == 1:
        return dot(x, y.reshape(-1, 1)).reshape(-1)
    if x.ndim == 1 and y.ndim == 2:
        return dot(x.reshape(1, -1), y).reshape(-1)
    raise Inconclusive('dot for these ranks')


def _mulz(u, v):
    if not isinstance(u, Sym) and u == 0:
        return 0
    if not isinstance(v, Sym) and v == 0:
        return 0
    return u * v


def matmul(x, y):
    return dot(x, y)


def einsum(spec, *ops):
    if spec == 'ijk,ljk->lki':
        pcs, x = asarray(ops[0]), asarray(ops[1])
        I, J, K = pcs.shape
        L = x.shape[0]
        dt = _fdt(pcs, x)
        out = _obj((L, K, I))
        for l in range(L):
            for k in range(K):
                for i in range(I):
                    r = 0
                    for j in range(J):
                        r = r + _mulz(pcs.a[i, j, k], x.a[l, j, k])
                    out[l, k, i] = cast_elem(r, dt)
        return ndarray(out, dt)
    # generic explicit einsum 'ab,bc->ac' (no ellipsis, no repeated output index)
    if '->' not in spec or '.' in spec:
        raise Inconclusive('einsum ' + spec)
    ins, outs = spec.replace(' ', '').split('->')
    ins = ins.split(',')
    arrs = [asarray(o) for o in ops]
    if len(ins) != len(arrs):
        raise ValueError('einsum operand count')
    dims = {}
    for sub, a in zip(ins, arrs):
        if len(sub) != a.ndim:
            raise ValueError('einsum subscripts do not match operand rank')
        for ch, d in zip(sub, a.shape):
            if dims.setdefault(ch, d) != d:
                raise ValueError('einsum dimension mismatch for %s' % ch)
    contracted = [ch for ch in dims if ch not in outs]
    dt = _fdt(*arrs)
    oshape = tuple(dims[ch] for ch in outs)
    out = _obj(oshape)
    for oidx in _np.ndindex(oshape):
        env_ = dict(zip(outs, oidx))
        r = 0
        for cidx in _np.ndindex(tuple(dims[ch] for ch in contracted)):
            env_.update(zip(contracted, cidx))
            term = None
            for sub, a in zip(ins, arrs):
                v = a.a[tuple(env_[ch] for ch in sub)]
                term = v if term is None else _mulz(term, v)
            r = r + term
        out[oidx] = cast_elem(r, dt)
    return ndarray(out, dt)


def average(x, axis=None, weights=None):
    x = asarray(x)
    if weights is None:
        return mean(x, axis)
    w = asarray(weights)
    if axis != 0 or w.ndim != 1:
        raise Inconclusive('average')
    wl = [operator.index(v) if isinstance(v, SymInt) else v for v in w.a.tolist()]
    tot = 0
    for v in wl:
        tot = tot + v
    odt = _np.result_type(x.dtype, w.dtype, _np.float64)
    acc = zeros(x.shape[1:], odt)
    for i, wv in enumerate(wl):
        acc = acc + x[i] * mkscalar(wv, w.dtype)
    return acc / symfloat(mkscalar(tot, w.dtype))


class _Linalg(object):
    LinAlgError = _np.linalg.LinAlgError

    @staticmethod
    def inv(m):
        m = asarray(m)
        if not m.is_conc():
            raise Inconclusive('inverse of a symbolic matrix')
        return _wrap(_np.linalg.inv(m.real()))

    @staticmethod
    def eigh(m):
        raise Inconclusive('eigh is outside the model')

    @staticmethod
    def norm(x):
        raise Inconclusive('norm is outside the model')


linalg = _Linalg()


def cov(*a, **k):
    raise Inconclusive('cov is outside the model')


class _Random(object):
    """np.random stub: choice() returns an arbitrary k-subset in arbitrary order."""
    @staticmethod
    def choice(a, size=None, replace=True):
        a = asarray(a)
        k = operator.index(size)
        assert not replace
        e = core.eng()
        n = a.shape[0]
        if k > n:
            raise ValueError("Cannot take a larger sample than population when 'replace=False'")
        picks = []
        for j in range(k):
            i = e.int('choice', 0, n - 1)
            for p in picks:
                e.add(i.term != p.term)
            picks.append(i)
        # arbitrary distinct positions, arbitrary order
        idx = [operator.index(p) for p in picks]
        return a[_np.array(idx, dtype=_np.int64)]

    @staticmethod
    def seed(*a):
        pass

    @staticmethod
    def randn(*a):
        raise Inconclusive('np.random.randn')


random = _Random()


def save(path, arr, **kw):
    from . import vfs
    return vfs.np_save(path, arr)


def load(path, mmap_mode=None, **kw):
    from . import vfs
    return vfs.np_load(path, mmap_mode)


def fromfile(path, dtype=None):
    from . import vfs
    return vfs.np_fromfile(path, dtype)


def frombuffer(buf, dtype=None):
    if isinstance(buf, BytesToken):
        dt = _dt(dtype)
        if dt != buf.dtype and dt == buf.dtype.newbyteorder() and dt.itemsize > 1:
            # same bytes read in the other byte order: byte-swapped values, modelled as unconstrained
            # elements of the requested dtype (any claim about them is confirmed by the replay)
            from . import core as _core
            eng = _core._ENG
            flat = buf.arr.ravel()
            vals = [eng.real('bswap%d' % i) if dt.kind == 'f' else eng.int('bswap%d' % i)
                    for i in range(flat.size)]
            return ndarray(_fromlist([_strip(v) for v in vals], (flat.size,)), dt)
        if dt != buf.dtype:
            raise Inconclusive('frombuffer with a different dtype')
        return buf.arr.ravel().copy()
    return _wrap(_np.frombuffer(buf, dtype))


def iterable(x):
    return isinstance(x, (ndarray, list, tuple))


def isscalar(x):
    return isinstance(x, (Sym, _b.int, _b.float, _np.generic))


def size(x, axis=None):
    x = asarray(x)
    return x.size if axis is None else x.shape[axis]


def ndim(x):
    return asarray(x).ndim


def shape(x):
    return asarray(x).shape


def result_type(*a):
    return _np.result_type(*[x.dtype if isinstance(x, ndarray) else x for x in a])


def allclose(x, y, **kw):
    return array_equal(x, y)


class _Lib(object):
    class format(object):
        @staticmethod
        def dtype_to_descr(dt):
            return _np.lib.format.dtype_to_descr(dt)

        @staticmethod
        def _check_version(v):
            return None

        @staticmethod
        def _write_array_header(fp, d, version=None):
            fp.write_npy_header(d)


lib = _Lib()
