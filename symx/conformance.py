"""Conformance suite of the NumPy model: every modelled operation is run on random small arrays
whose elements are *symbolic constants* (so the symbolic code path is taken, not the delegation to
real NumPy) and compared with real NumPy in the same process.  A mismatch is a harness error
(exit 2), never a violation."""
import random
import z3
import numpy as np

from . import core, symnp as snp, lam
from .core import SymInt, SymReal, SymBool

INT_DTYPES = ['int32', 'int64', 'uint16', 'uint32']


def _sym(arr):
    """symnp array whose elements are Sym constants"""
    a = np.asarray(arr)
    out = snp._obj(a.shape)
    for idx in np.ndindex(a.shape):
        v = a[idx].item()
        if a.dtype.kind == 'b':
            out[idx] = SymBool(z3.BoolVal(bool(v)))
        elif a.dtype.kind == 'f':
            out[idx] = SymReal(core._realval(float(v)))
        else:
            out[idx] = SymInt(z3.IntVal(int(v)))
    return snp.ndarray(out, a.dtype)


def _conc(x):
    """symnp result -> real numpy value"""
    if isinstance(x, tuple):
        return tuple(_conc(v) for v in x)
    if isinstance(x, lam.LArr):
        x = x.to_carr()
    if isinstance(x, snp.ndarray):
        ev = core.ModelEval(z3.Model() if False else _EMPTY)
        flat = [ev(v) if isinstance(v, core.Sym) else v for v in x.a.ravel().tolist()]
        return np.array(flat, dtype=x.dtype).reshape(x.shape) if flat else np.empty(x.shape, x.dtype)
    if isinstance(x, core.Sym):
        return core.ModelEval(_EMPTY)(x)
    return x


class _EmptyModel(object):
    def eval(self, t, model_completion=True):
        return z3.simplify(t)


_EMPTY = _EmptyModel()


def _same(a, b):
    if isinstance(a, tuple):
        return isinstance(b, tuple) and len(a) == len(b) and all(_same(x, y) for x, y in zip(a, b))
    a, b = np.asarray(a), np.asarray(b)
    if a.shape != b.shape:
        return False
    if a.dtype.kind == 'f' or b.dtype.kind == 'f':
        return bool(np.allclose(a.astype(float), b.astype(float), rtol=1e-9, atol=1e-9, equal_nan=True))
    return bool(np.array_equal(a, b))


def run(seed=0, rounds=12):
    rng = random.Random(seed)
    nrng = np.random.RandomState(seed)
    cases = 0
    failures = []
    e = core.Engine()
    prev = core._ENG
    core._ENG = e
    e._begin([], None)

    def check(name, got, want, dtype_strict=True):
        nonlocal cases
        cases += 1
        g = _conc(got)
        ok = _same(g, want)
        if ok and dtype_strict and isinstance(got, snp.ndarray) and isinstance(want, np.ndarray):
            ok = got.dtype == want.dtype
        if not ok:
            failures.append('%s: symnp %r (%s) vs numpy %r (%s)' % (
                name, np.asarray(g).tolist(), getattr(got, 'dtype', None), np.asarray(want).tolist(),
                getattr(want, 'dtype', None)))
    try:
        for r in range(rounds):
            n = rng.randint(1, 5)
            for dt in INT_DTYPES:
                hi = 9
                x = nrng.randint(0, hi, size=n).astype(dt)
                y = nrng.randint(1, hi, size=n).astype(dt)
                sx, sy = _sym(x), _sym(y)
                with np.errstate(all='ignore'):
                    check('add ' + dt, sx + sy, x + y)
                    check('sub ' + dt, sx - sy, x - y)
                    check('mul ' + dt, sx * sy, x * y)
                    check('floordiv ' + dt, sx // sy, x // y)
                    check('mod ' + dt, sx % sy, x % y)
                    check('truediv ' + dt, sx / sy, x / y)
                    check('scalar sub ' + dt, sx - 3, x - 3)
                    check('rsub ' + dt, 3 - sx, 3 - x)
                    check('lt ' + dt, sx < sy, x < y)
                    check('eq ' + dt, sx == sy, x == y)
                    check('diff ' + dt, snp.diff(sx), np.diff(x))
                    check('cumsum ' + dt, snp.cumsum(sx), np.cumsum(x))
                    check('sum ' + dt, snp.sum(sx), np.sum(x), dtype_strict=False)
                    check('max ' + dt, snp.amax(sx), np.max(x), dtype_strict=False)
                    check('argmax ' + dt, snp.argmax(sx), np.argmax(x), dtype_strict=False)
                    check('argmin ' + dt, snp.argmin(sx), np.argmin(x), dtype_strict=False)
                    check('isin ' + dt, snp.isin(sx, sy), np.isin(x, y))
                    check('unique ' + dt, snp.unique(sx), np.unique(x))
                    u, c = snp.unique(sx, return_counts=True)
                    ru, rc = np.unique(x, return_counts=True)
                    check('unique counts ' + dt, (u, c), (ru, rc), dtype_strict=False)
                    check('intersect1d ' + dt, snp.intersect1d(sx, sy), np.intersect1d(x, y))
                    check('intersect1d assume_unique ' + dt, snp.intersect1d(sx, sy, assume_unique=True),
                          np.intersect1d(x, y, assume_unique=True))
                    check('argsort stable ' + dt, snp.argsort(sx, kind='stable'), np.argsort(x, kind='stable'))
                    check('sort ' + dt, snp.sort(sx), np.sort(x))
                    check('nonzero ' + dt, snp.nonzero(sx > 3)[0], np.nonzero(x > 3)[0])
                    check('mask get ' + dt, sx[sx > 3], x[x > 3])
                    check('where ' + dt, snp.where(sx > sy, sx, sy), np.where(x > y, x, y))
                    check('astype int32 ' + dt, sx.astype('int32'), x.astype('int32'))
                    check('astype float ' + dt, sx.astype('float64'), x.astype('float64'))
                    if dt != 'uint64':
                        check('bincount ' + dt, snp.bincount(sx), np.bincount(x))
                        check('bincount minlength ' + dt, snp.bincount(sx, minlength=12), np.bincount(x, minlength=12))
                        w = nrng.randint(0, 5, size=n).astype(float)
                        check('bincount weights ' + dt, snp.bincount(sx, weights=_sym(w)), np.bincount(x, weights=w))
                    xs = np.sort(x)
                    for side in ('left', 'right'):
                        check('searchsorted %s %s' % (side, dt), snp.searchsorted(_sym(xs), sy, side),
                              np.searchsorted(xs, y, side), dtype_strict=False)
                    idx = nrng.randint(0, n, size=3)
                    check('gather ' + dt, sx[_sym(idx)], x[idx])
                    z = sx.copy()
                    z[_sym(idx[:1])] = 7
                    xz = x.copy()
                    xz[idx[:1]] = 7
                    check('scatter ' + dt, z, xz)
            # 2-D / float
            m, k = rng.randint(1, 3), rng.randint(1, 3)
            a = (nrng.randint(-6, 7, size=(m, k)) / 2.0)
            b = (nrng.randint(-6, 7, size=(k, m)) / 2.0)
            sa, sb = _sym(a), _sym(b)
            check('dot', snp.dot(sa, sb), np.dot(a, b))
            check('einsum nsc,dc->nsd', snp.einsum('nsc,dc->nsd', _sym(a[None]), _sym(b.T @ np.eye(k) if False else
                                                                                      np.ones((2, k)))),
                  np.einsum('nsc,dc->nsd', a[None], np.ones((2, k))))
            check('max axis0', sa.max(axis=0), a.max(axis=0))
            check('min axis1', sa.min(axis=1), a.min(axis=1))
            check('argmax axis1', snp.argmax(sa, axis=1), np.argmax(a, axis=1), dtype_strict=False)
            check('sum axis0', snp.sum(sa, axis=0), np.sum(a, axis=0))
            check('any', snp.any(sa > 1), np.any(a > 1), dtype_strict=False)
            check('all axis', snp.all(sa > -4, axis=1), np.all(a > -4, axis=1))
            check('abs', snp.abs(sa), np.abs(a))
            check('maximum', snp.maximum(sa, 0), np.maximum(a, 0))
            check('transpose', sa.T, a.T)
            check('vstack', snp.vstack([sa, sa]), np.vstack([a, a]))
            check('dstack', snp.dstack([sa, sa]), np.dstack([a, a]))
            check('tile', snp.tile(sa, (2, 1)), np.tile(a, (2, 1)))
            check('r_', snp.r_[_sym(a[0]), -1], np.r_[a[0], -1])
            check('c_', snp.c_[_sym(a[:, 0])], np.c_[a[:, 0]])
            check('round', snp.round(_sym(a * 1.5)), np.round(a * 1.5))
            check('average', snp.average(_sym(np.stack([a, a + 1])), axis=0, weights=_sym(np.array([1, 3]))),
                  np.average(np.stack([a, a + 1]), axis=0, weights=np.array([1, 3])))
            dims = (3, 4, 2)
            mi = tuple(nrng.randint(0, d, size=3) for d in dims)
            check('ravel_multi_index', snp.ravel_multi_index(tuple(_sym(v) for v in mi), dims),
                  np.ravel_multi_index(mi, dims), dtype_strict=False)
            # lambda arrays
            nn = rng.randint(2, 6)
            base = nrng.randint(-5, 6, size=(nn, 2))
            L = lam.LArr((nn, 2), 'int64', lambda idx, base=base: _sel2(base, idx))
            i0, i1 = sorted(rng.sample(range(0, nn + 1), 2))
            check('lam slice', L[i0:i1], base[i0:i1])
            check('lam neg slice', L[-2:], base[-2:])
            check('lam cols', L[:, [1, 0]], base[:, [1, 0]])
            check('lam int', L[nn - 1], base[nn - 1])
            check('lam concat', lam.concatenate([L, L[:1]]), np.concatenate([base, base[:1]]))
            L2 = L.copy()
            L2[1:, 0] = 9
            b2 = base.copy()
            b2[1:, 0] = 9
            check('lam setitem', L2, b2)
            check('lam ew', L * 2 - 1, base * 2 - 1)
    finally:
        core._ENG = prev
    return {'cases': cases, 'failures': failures[:5], 'ok': not failures}


def _sel2(base, idx):
    i, j = idx
    if isinstance(i, core.Sym):
        i = core.ModelEval(_EMPTY)(i)
    if isinstance(j, core.Sym):
        j = core.ModelEval(_EMPTY)(j)
    return SymInt(z3.IntVal(int(base[int(i), int(j)])))
