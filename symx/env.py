"""Standard substituted environment for loading phylib symbolically."""
import types
from . import symnp, builtins_ as sb
from .loader import SymPackage


class _Tqdm(object):
    def __init__(self, *a, **k):
        pass

    def update(self, *a, **k):
        pass

    def close(self):
        pass

    def __enter__(self):
        return self

    def __exit__(self, *a):
        return False


def _mod(name, **attrs):
    m = types.ModuleType(name)
    m.__dict__.update(attrs)
    return m


def make_pkg(extra_env=None, extra_builtins=None, record=None, literal_overrides=None):
    from . import vfs
    tq = _mod('tqdm', tqdm=_Tqdm)
    mts = _mod('mtscomp', Reader=vfs.MtscompReaderStub)
    scipy_linalg = _mod('scipy.linalg', block_diag=symnp_block_diag)
    scipy_io = _mod('scipy.io', loadmat=None)
    scipy = _mod('scipy', linalg=scipy_linalg, io=scipy_io)
    env = {
        'numpy': symnp,
        'numpy.lib.format': symnp.lib.format,
        'numpy.random': symnp.random,
        'math': sb.fake_math,
        'pathlib': _mod('pathlib', Path=vfs.VPath),
        'shutil': _mod('shutil', copy=vfs.shutil_copy),
        'os': vfs.fake_os,
        'tqdm': tq,
        'mtscomp': mts,
        'scipy': scipy, 'scipy.linalg': scipy_linalg, 'scipy.io': scipy_io,
    }
    if extra_env:
        env.update(extra_env)
    eb = {'open': vfs.vopen}
    if extra_builtins:
        eb.update(extra_builtins)
    return SymPackage(env, eb, record=record, literal_overrides=literal_overrides)


def symnp_block_diag(*arrs):
    arrs = [symnp.atleast_2d(a) for a in arrs]
    n = sum(a.shape[0] for a in arrs)
    m = sum(a.shape[1] for a in arrs)
    import numpy as np
    dt = np.result_type(*[a.dtype for a in arrs]) if arrs else np.dtype('float64')
    out = symnp.zeros((n, m), dt)
    i = j = 0
    for a in arrs:
        out[i:i + a.shape[0], j:j + a.shape[1]] = a
        i += a.shape[0]
        j += a.shape[1]
    return out
