"""Load the current /repo/phylib sources, unmodified, into a private module graph whose
environment (numpy, pathlib, math, builtins, third-party packages) is substituted."""
import ast
import builtins as _b
import os
import sys
import types

from . import builtins_ as sb

REPO = os.environ.get('PHYLIB_REPO', '/repo')


class SymPackage(object):
    """One private instance of the phylib package executed over a substituted environment."""

    def __init__(self, env_modules, extra_builtins=None, repo=None, record=None, literal_overrides=None):
        """env_modules: dict name -> module object replacing an import (e.g. 'numpy').
        Names not listed are imported for real.
        literal_overrides: {(module, function, variable): value} -- the only source transformation the
        loader knows: inside `function` of `module`, an assignment `variable = <numeric literal>` is
        re-bound to `value` (a scaled-down size constant, e.g. a batch size).  The literal found in the
        current source is kept in self.literals (None when the source has no such assignment, in which
        case nothing is rewritten).  Every use is a stated assumption of the check that asks for it."""
        self.repo = repo or REPO
        self.literal_overrides = dict(literal_overrides or {})
        self.literals = {}
        self.env = dict(env_modules)
        self.modules = {}
        self.record = record if record is not None else set()
        extra = dict(extra_builtins or {})
        extra['__import__'] = self._import
        self.builtins = sb.make_builtins(extra)
        # top-level package: not executed (logging/atexit/git only)
        top = types.ModuleType('phylib')
        top.__path__ = [os.path.join(self.repo, 'phylib')]
        self.modules['phylib'] = top

    # -- module loading --------------------------------------------------------
    def _path_of(self, name):
        rel = name.split('.')
        base = os.path.join(self.repo, *rel)
        if os.path.isdir(base):
            return os.path.join(base, '__init__.py'), True
        return base + '.py', False

    def load(self, name):
        if name in self.modules:
            return self.modules[name]
        if '.' in name:
            self.load(name.rsplit('.', 1)[0])
        path, is_pkg = self._path_of(name)
        if not os.path.exists(path):
            raise ImportError('no module %s in %s' % (name, self.repo))
        with open(path) as f:
            src = f.read()
        mod = types.ModuleType(name)
        mod.__file__ = path
        mod.__package__ = name if is_pkg else name.rsplit('.', 1)[0]
        if is_pkg:
            mod.__path__ = [os.path.dirname(path)]
        mod.__dict__['__builtins__'] = self.builtins
        self.modules[name] = mod
        code = compile(self._scaled(name, src, path), path, 'exec')
        exec(code, mod.__dict__)
        if '.' in name:
            parent, child = name.rsplit('.', 1)
            setattr(self.modules[parent], child, mod)
        self.record.add(os.path.relpath(path, self.repo))
        return mod

    def _scaled(self, name, src, path):
        todo = {k: v for k, v in self.literal_overrides.items() if k[0] == name}
        if not todo:
            return src
        tree = ast.parse(src, path)
        for (_, func, var), value in todo.items():
            self.literals[(name, func, var)] = None
            for node in ast.walk(tree):
                if isinstance(node, (ast.FunctionDef, ast.AsyncFunctionDef)) and node.name == func:
                    for sub in ast.walk(node):
                        if (isinstance(sub, ast.Assign) and len(sub.targets) == 1
                                and isinstance(sub.targets[0], ast.Name) and sub.targets[0].id == var
                                and isinstance(sub.value, ast.Constant)
                                and isinstance(sub.value.value, (int, float))
                                and not isinstance(sub.value.value, bool)):
                            self.literals[(name, func, var)] = sub.value.value
                            sub.value = ast.copy_location(ast.Constant(value), sub.value)
        return tree

    def _import(self, name, globals=None, locals=None, fromlist=(), level=0):
        if level > 0:
            pkg = globals.get('__package__') or globals['__name__'].rsplit('.', 1)[0]
            parts = pkg.split('.')
            if level > 1:
                parts = parts[:-(level - 1)]
            name = '.'.join(parts + ([name] if name else []))
        if name == 'phylib' or name.startswith('phylib.'):
            mod = self.load(name)
            if fromlist:
                for f in fromlist:
                    if not hasattr(mod, f) and hasattr(mod, '__path__'):
                        try:
                            self.load(name + '.' + f)
                        except ImportError:
                            pass
                return mod
            return self.modules['phylib']
        # substituted environment
        if name in self.env:
            mod = self.env[name]
            if fromlist:
                return mod
            top = name.split('.')[0]
            return self.env.get(top, mod)
        top = name.split('.')[0]
        if top in self.env and not fromlist:
            return self.env[top]
        return _b.__import__(name, globals, locals, fromlist, level)

    def __getitem__(self, name):
        return self.load(name)


def repo_functions(mod, names):
    """'file:function' labels for the evidence file."""
    out = []
    for n in names:
        out.append('%s:%s' % (os.path.relpath(mod.__file__, REPO), n))
    return out


def real_phylib():
    """Import the real phylib from /repo under real NumPy (harness-side shim for the
    two private names NumPy >= 2 no longer re-exports from numpy.lib.format)."""
    import numpy.lib.format as nlf
    if not hasattr(nlf, '_check_version'):
        import numpy.lib._format_impl as impl
        nlf._check_version = impl._check_version
        nlf._write_array_header = impl._write_array_header
    if REPO not in sys.path:
        sys.path.insert(0, REPO)
    import phylib  # noqa
    return phylib
