"""symx.core -- decision-replay symbolic executor over z3.

The real phylib functions run on Sym* values.  A Python-level branch on a symbolic
value asks the solver which sides are feasible and forks; forks are explored by
re-running the harness function with a recorded decision prefix.
"""
import time
import z3
import numpy as _np

# ----------------------------------------------------------------------------
# control-flow exceptions (BaseException so that `except Exception` in real code
# never swallows them)
# ----------------------------------------------------------------------------


class PathAbort(BaseException):
    """Current path is abandoned (infeasible assumption / obligation failed)."""


class BoundExceeded(BaseException):
    """An unwinding bound was exceeded: configuration inconclusive."""


class Inconclusive(BaseException):
    """Solver returned unknown / model could not be interpreted."""


class StopExploration(BaseException):
    """Enough counterexamples were collected for this configuration."""


class TooLarge(Exception):
    """A model is too large to be materialised for a replay on the real stack."""


_ENG = None
TOKENS = {}            # placeholder string -> Sym (symbolic numbers rendered into text files)
ARRAY_CTX = [False]   # True while an elementwise array operation evaluates its scalar kernel


def eng():
    return _ENG


class Stats(dict):
    def inc(self, k, v=1):
        self[k] = self.get(k, 0) + v


class Engine(object):
    def __init__(self, qtimeout_ms=20000, conc_cap=64, max_paths=200000, loop_bound=64):
        self.qtimeout_ms = qtimeout_ms
        self.conc_cap = conc_cap
        self.max_paths = max_paths
        self.loop_bound = loop_bound
        self.stats = Stats()
        self.cex = []          # counterexamples (dicts)
        self.witnesses = []    # witness cases
        self.samples = []
        self.functions = set()
        self.solver = None
        self.model = None
        self.prefix = []
        self.pos = 0
        self.decisions = []
        self.worklist = []
        self.fresh = 0
        self.inputs = []
        self.case_builder = None
        self.known = []        # list of z3 predicates builder callables (known findings)
        self.path_forked = False
        self.prefer = []       # soft constraints used to pick small models for replay
        self.deadline = None
        self.bound_exceeded = []
        self.max_cex = 4
        self.concretize_divisors = False
        self.uf_division = False
        self.hash_concretize = False
        self.known_noted = {}
        self.concretize_shapes = False

    # -- exploration ---------------------------------------------------------
    def explore(self, fn, deadline=None):
        """Run fn() along every feasible path. Returns number of completed paths."""
        global _ENG
        prev = _ENG
        _ENG = self
        self.worklist = [([], None)]
        completed = 0
        if deadline is not None:
            self.deadline = deadline
        try:
            while self.worklist:
                if self.stats.get('paths', 0) >= self.max_paths:
                    raise BoundExceeded('max_paths')
                if deadline is not None and time.time() > deadline:
                    raise BoundExceeded('deadline')
                prefix, model = self.worklist.pop()
                self._begin(prefix, model)
                self.stats.inc('paths')
                try:
                    fn()
                    completed += 1
                    self.stats.inc('paths_completed')
                    if self.path_forked:
                        self.stats.inc('paths_nontrivial')
                except PathAbort:
                    self.stats.inc('paths_aborted')
                except BoundExceeded as ex:
                    if self.deadline is not None and time.time() > self.deadline:
                        raise
                    self.stats.inc('paths_bound_exceeded')
                    self.bound_exceeded.append(str(ex))
        except StopExploration:
            self.stats.inc('stopped_after_cex')
        finally:
            _ENG = prev
        return completed

    def _begin(self, prefix, model):
        self.solver = z3.Solver()
        self.solver.set('timeout', self.qtimeout_ms)
        self.prefix = prefix
        self.pos = 0
        self.decisions = []
        self.fresh = 0
        self.model = model
        self.inputs = []
        self.path_forked = len(prefix) > 0
        self.path_notes = {}
        self.prefer = []
        self.decided = {}
        TOKENS.clear()

    # -- solver helpers ------------------------------------------------------
    def _check(self, *assumptions):
        t = time.time()
        if self.deadline is not None and t > self.deadline:
            raise BoundExceeded('time budget of the configuration exhausted')
        r = self.solver.check(*assumptions)
        self.stats.inc('solver_s', time.time() - t)
        self.stats.inc('queries')
        if r == z3.unknown:
            self.stats.inc('unknown')
            raise Inconclusive('solver unknown: %s' % self.solver.reason_unknown())
        return r == z3.sat

    def _ensure_model(self):
        if self.model is None:
            if not self._check():
                raise PathAbort()
            self.model = self.solver.model()
        return self.model

    def _eval_bool(self, term):
        m = self._ensure_model()
        v = m.eval(term, model_completion=True)
        if z3.is_true(v):
            return True
        if z3.is_false(v):
            return False
        # could not evaluate: fall back to a check
        return None

    def add(self, term):
        """Add a constraint that cannot make the path infeasible (bounds on fresh variables)."""
        if isinstance(term, Sym):
            term = _bool_term(term)
        self.solver.add(term)
        if self.model is not None:
            v = self.model.eval(term, model_completion=True)
            if not z3.is_true(v):
                self.model = None

    # -- branching -----------------------------------------------------------
    def branch(self, term):
        """Decide a symbolic boolean; fork if both sides are feasible."""
        term = z3.simplify(term)
        if z3.is_true(term):
            return True
        if z3.is_false(term):
            return False
        tid = term.get_id()
        hit = self.decided.get(tid)
        if hit is not None:
            return hit[0]
        if self.pos < len(self.prefix):
            d = self.prefix[self.pos]
            self.pos += 1
            assert d[0] == 'b', ('replay divergence', d)
            side = d[1]
            self.solver.add(term if side else z3.Not(term))
            self.decisions.append(d)
            self.decided[tid] = (side, term)
            return side
        self.stats.inc('branches')
        v = self._eval_bool(term)
        if v is None:
            if self._check(term):
                self.model = self.solver.model()
                v = True
            else:
                v = False
                self.model = None
        other = z3.Not(term) if v else term
        if self._check(other):
            om = self.solver.model()
            self.worklist.append((self.decisions + [('b', not v)], om))
            self.path_forked = True
            self.stats.inc('forks')
        self.solver.add(term if v else z3.Not(term))
        self.decisions.append(('b', v))
        self.pos += 1
        self.decided[tid] = (v, term)
        return v

    def known_value(self, term):
        """value of an integer term if it is a constant or was already concretised on this path"""
        term = z3.simplify(term)
        if z3.is_int_value(term):
            return term.as_long()
        hit = self.decided.get(term.get_id())
        if hit is not None and isinstance(hit[0], int) and not isinstance(hit[0], bool):
            return hit[0]
        return None

    def concretize(self, term, cap=None):
        """Enumerate feasible integer values of term; fork on each."""
        term = z3.simplify(term)
        if z3.is_int_value(term):
            return term.as_long()
        tid = term.get_id()
        hit = self.decided.get(tid)
        if hit is not None:
            return hit[0]
        if self.pos < len(self.prefix):
            d = self.prefix[self.pos]
            self.pos += 1
            assert d[0] == 'c', ('replay divergence', d)
            self.solver.add(term == d[1])
            self.decisions.append(d)
            self.decided[tid] = (d[1], term)
            return d[1]
        cap = cap or self.conc_cap
        self.stats.inc('concretizations')
        m = self._ensure_model()
        v0 = m.eval(term, model_completion=True)
        if not z3.is_int_value(v0):
            raise Inconclusive('cannot evaluate %s' % term)
        v0 = v0.as_long()
        # enumerate other values
        others = []
        self.solver.push()
        self.solver.add(term != v0)
        while True:
            if not self._check():
                break
            om = self.solver.model()
            ov = om.eval(term, model_completion=True).as_long()
            others.append((ov, om))
            self.solver.add(term != ov)
            if len(others) + 1 > cap:
                self.solver.pop()
                raise BoundExceeded('concretize cap %d exceeded for %s' % (cap, term))
        self.solver.pop()
        for ov, om in others:
            self.worklist.append((self.decisions + [('c', ov)], om))
            self.stats.inc('forks')
        if others:
            self.path_forked = True
        self.solver.add(term == v0)
        self.decisions.append(('c', v0))
        self.pos += 1
        self.decided[tid] = (v0, term)
        return v0

    # -- assumptions and obligations ------------------------------------------
    def assume(self, cond):
        term = _bool_term(cond)
        term = z3.simplify(term)
        if z3.is_true(term):
            return
        if z3.is_false(term):
            raise PathAbort()
        self.solver.add(term)
        if self.pos < len(self.prefix):
            return  # feasibility known from the recorded path
        if self.model is not None:
            v = self.model.eval(term, model_completion=True)
            if z3.is_true(v):
                return
        if not self._check():
            raise PathAbort()
        self.model = self.solver.model()

    def prove(self, cond, label, case=None):
        """Obligation: cond must hold on this path for all values. Returns True if
        discharged; records a counterexample and aborts the path otherwise."""
        term = _bool_term(cond)
        self.stats.inc('obligations')
        term = z3.simplify(term)
        if z3.is_true(term):
            self.stats.inc('discharged')
            return True
        neg = z3.Not(term)
        if not self._check(neg):
            self.stats.inc('discharged')
            return True
        m = self._small_model(neg)
        self._record_cex(m, label, case)
        raise PathAbort()

    def _small_model(self, *extra):
        """A model of the path condition (+extra), preferring the soft constraints."""
        m = self.solver.model()
        pref = [_bool_term(p) for p in self.prefer]
        if pref:
            try:
                if self._check(*(list(extra) + pref)):
                    return self.solver.model()
                acc = list(extra)
                for p in pref:
                    if self._check(*(acc + [p])):
                        acc.append(p)
                        m = self.solver.model()
            except Inconclusive:
                pass
        return m

    def prove_all(self, items, case=None):
        """Several obligations discharged by one solver query (their conjunction)."""
        terms = []
        for cond, label in items:
            self.stats.inc('obligations')
            t = z3.simplify(_bool_term(cond))
            if z3.is_true(t):
                self.stats.inc('discharged')
                continue
            terms.append((t, label))
        if not terms:
            return True
        neg = z3.Not(z3.And(*[t for t, _ in terms]))
        if not self._check(neg):
            self.stats.inc('discharged', len(terms))
            return True
        m = self._small_model(neg)
        label = 'obligation failed'
        for t, l in terms:
            if z3.is_false(m.eval(t, model_completion=True)):
                label = l
                break
        self._record_cex(m, label, case)
        raise PathAbort()

    def note_known(self, cond, label, case=None):
        """If `cond` (a listed known-finding input class that violates the property) is reachable on
        this path, record one model of it (replayed and classified by the harness); the path goes on
        under the assumption that the class is excluded."""
        term = z3.simplify(_bool_term(cond))
        if z3.is_false(term):
            return False
        if self.known_noted.get(label, 0) < 2 and self._check(term):
            m = self._small_model(term)
            ev = ModelEval(m)
            builder = case or self.case_builder
            c = builder(ev) if builder else {}
            self.cex.append({'label': label, 'case': c, 'known_candidate': True})
            self.known_noted[label] = self.known_noted.get(label, 0) + 1
            self.stats.inc('sat')
        self.assume(SymBool(z3.Not(term)))
        return True

    def fail(self, label, case=None):
        """The real code misbehaved on this (feasible) path."""
        self.stats.inc('obligations')
        self._ensure_model()
        if not self._check():
            raise PathAbort()
        m = self._small_model()
        self._record_cex(m, label, case)
        raise PathAbort()

    def _record_cex(self, m, label, case):
        self.stats.inc('sat')
        ev = ModelEval(m)
        builder = case or self.case_builder
        c = builder(ev) if builder else {n: ev(t) for n, t in self.inputs}
        self.cex.append({'label': label, 'case': c})
        if len([c for c in self.cex if not c.get('known_candidate')]) >= self.max_cex:
            raise StopExploration()

    def reachable(self):
        """Vacuity twin: `False` must be violated, i.e. the path is feasible."""
        self._ensure_model()
        self.stats.inc('reach_witnesses')
        return True

    def witness(self, case=None):
        """One concrete model of the current path (for replay on the real stack)."""
        m = self._ensure_model()
        if self.prefer:
            if self._check():
                m = self._small_model()
        ev = ModelEval(m)
        builder = case or self.case_builder
        c = builder(ev) if builder else {n: ev(t) for n, t in self.inputs}
        self.witnesses.append(c)
        return c

    # -- variables -------------------------------------------------------------
    def _name(self, base):
        self.fresh += 1
        return '%s!%d' % (base, self.fresh)

    def int(self, name, lo=None, hi=None, dt=None):
        t = z3.Int(self._name(name))
        if lo is not None:
            self.add(t >= lo)
        if hi is not None:
            self.add(t <= hi)
        self.inputs.append((name, t))
        return SymInt(t, dt)

    def real(self, name, dt=None):
        t = z3.Real(self._name(name))
        self.inputs.append((name, t))
        return SymReal(t, dt)

    def bool(self, name):
        t = z3.Bool(self._name(name))
        self.inputs.append((name, t))
        return SymBool(t)

    def func(self, name, *sorts):
        return z3.Function(name, *sorts)

    def choice(self, name, options):
        """Symbolic choice among a finite list (the solver enumerates feasible ones)."""
        i = self.int(name, 0, len(options) - 1)
        return options[self.concretize(i.term, cap=len(options) + 1)]


class ModelEval(object):
    def __init__(self, m):
        self.m = m

    def __call__(self, x):
        if isinstance(x, Sym):
            x = x.term
        if isinstance(x, (list, tuple)):
            return [self(y) for y in x]
        if not isinstance(x, z3.ExprRef):
            if isinstance(x, _np.generic):
                return x.item()
            return x
        v = self.m.eval(x, model_completion=True)
        if z3.is_int_value(v):
            return v.as_long()
        if z3.is_rational_value(v):
            n, d = v.numerator_as_long(), v.denominator_as_long()
            return n / d if d != 1 else float(n)
        if z3.is_true(v):
            return True
        if z3.is_false(v):
            return False
        if z3.is_algebraic_value(v):
            return float(v.approx(20).as_fraction())
        raise Inconclusive('cannot interpret model value %s' % v)


# ----------------------------------------------------------------------------
# Symbolic scalars
# ----------------------------------------------------------------------------

TOK = '\u00a7'


class Sym(object):
    __slots__ = ('term', 'dt')
    __array_priority__ = 1000

    def __str__(self):
        """Rendering into text: a placeholder that int()/float() of the symbolic builtins decode
        again (axiom: int(str(i)) == i, float(str(x)) == x up to the written precision)."""
        k = '%s%d%s' % (TOK, len(TOKENS), TOK)
        TOKENS[k] = self
        return k


def token_value(s):
    """Sym for a string that is exactly one placeholder (surrounding blanks ignored), else None"""
    if isinstance(s, str):
        return TOKENS.get(s.strip())
    return None


def _bool_term(x):
    if isinstance(x, SymBool):
        return x.term
    if isinstance(x, z3.BoolRef):
        return x
    if isinstance(x, (bool, _np.bool_)):
        return z3.BoolVal(bool(x))
    if isinstance(x, Sym):
        return x.term != 0
    return z3.BoolVal(bool(x))


_UNSIGNED = {}


def _np_dt(dt):
    return None if dt is None else _np.dtype(dt)


def wrap_int(term, dt):
    """Two's-complement wrap-around for unsigned dtypes (single wrap below zero and
    above the maximum); signed overflow is outside the model (stated assumption)."""
    if dt is None or dt.kind != 'u':
        return term
    m = 1 << (8 * dt.itemsize)
    term = z3.simplify(term)
    if z3.is_int_value(term):
        return z3.IntVal(term.as_long() % m)
    return z3.If(term < 0, term + m, z3.If(term >= m, term - m, term))


_IV = {}


def _iv(n):
    t = _IV.get(n)
    if t is None:
        t = z3.IntVal(n)
        if -1024 <= n <= 65536:
            _IV[n] = t
    return t


def _classify(x):
    """Return (kind, term, dt) with kind in 'b','i','r' or None if not numeric."""
    if isinstance(x, SymInt):
        return 'i', x.term, x.dt
    if isinstance(x, SymReal):
        return 'r', x.term, x.dt
    if isinstance(x, SymBool):
        return 'b', x.term, None
    if isinstance(x, (bool, _np.bool_)):
        return 'b', z3.BoolVal(bool(x)), None
    if isinstance(x, int):
        return 'i', _iv(x), None
    if isinstance(x, _np.integer):
        return 'i', _iv(int(x)), x.dtype
    if isinstance(x, float):
        return 'r', _realval(x), None
    if isinstance(x, _np.floating):
        return 'r', _realval(float(x)), x.dtype
    import fractions
    if isinstance(x, fractions.Fraction):
        return 'r', z3.RealVal(str(x)), None
    return None


def _realval(f):
    import fractions
    if f != f or f in (float('inf'), float('-inf')):
        raise Inconclusive('non-finite float constant in symbolic arithmetic')
    fr = fractions.Fraction(f)
    return z3.RealVal(str(fr))


def _b2i(term):
    return z3.If(term, _iv(1), _iv(0))


def _res_dt(d1, d2, k1, k2):
    """NumPy (NEP 50) result dtype of a binary op on scalars; None = Python scalar."""
    if d1 is None and d2 is None:
        return None
    if d1 is None:
        if k1 == 'r' and d2.kind in 'iub':
            return _np.dtype('float64')
        return d2
    if d2 is None:
        if k2 == 'r' and d1.kind in 'iub':
            return _np.dtype('float64')
        return d1
    return _np.result_type(d1, d2)


def _coerce(a, b):
    """-> (kind, ta, tb, dt)"""
    ca, cb = _classify(a), _classify(b)
    if ca is None or cb is None:
        return None
    ka, ta, da = ca
    kb, tb, db = cb
    dt = _res_dt(da, db, ka, kb)
    if ka == 'b':
        ta = _b2i(ta)
        ka = 'i'
    if kb == 'b':
        tb = _b2i(tb)
        kb = 'i'
    if dt is not None and dt.kind == 'f':
        kind = 'r'
    elif ka == 'r' or kb == 'r':
        kind = 'r'
    else:
        kind = 'i'
    if kind == 'r':
        if ka == 'i':
            ta = z3.ToReal(ta)
        if kb == 'i':
            tb = z3.ToReal(tb)
    return kind, ta, tb, dt


def _mk(kind, term, dt):
    if kind == 'i':
        return SymInt(wrap_int(term, dt), dt)
    if kind == 'r':
        return SymReal(term, dt)
    return SymBool(term)


def _floordiv(a, b):
    bs = z3.simplify(b)
    if z3.is_int_value(bs):
        bv = bs.as_long()
        if bv > 0:
            return a / bs
        if bv < 0:
            return (-a) / z3.IntVal(-bv)
        raise ZeroDivisionError('integer division by zero')
    return z3.If(b > 0, a / b, (-a) / (-b))


def _pymod(a, b):
    bs = z3.simplify(b)
    if z3.is_int_value(bs):
        bv = bs.as_long()
        if bv > 0:
            return a % bs
        if bv < 0:
            return -((-a) % z3.IntVal(-bv))
        raise ZeroDivisionError('integer modulo by zero')
    return z3.If(b > 0, a % b, -((-a) % (-b)))


class _Num(Sym):
    __slots__ = ()

    def _bin(self, other, op, rev=False):
        c = _coerce(other, self) if rev else _coerce(self, other)
        if c is None:
            return NotImplemented
        kind, ta, tb, dt = c
        if op == 'add':
            return _mk(kind, ta + tb, dt)
        if op == 'sub':
            return _mk(kind, ta - tb, dt)
        if op == 'mul':
            return _mk(kind, ta * tb, dt)
        if op in ('truediv', 'floordiv', 'mod') and _ENG is not None and _ENG.uf_division and ARRAY_CTX[0] \
                and (not (z3.is_int_value(z3.simplify(tb)) or z3.is_rational_value(z3.simplify(tb)))
                     or (kind == 'r' and op != 'truediv')):
            # division by a symbolic value as an uninterpreted function (sound over-approximation)
            if kind == 'i' and op != 'truediv':
                f = z3.Function(op + '_ii', z3.IntSort(), z3.IntSort(), z3.IntSort())
                return _mk('i', f(ta, tb), dt)
            if kind == 'i':
                ta, tb = z3.ToReal(ta), z3.ToReal(tb)
            f = z3.Function(op + '_rr', z3.RealSort(), z3.RealSort(), z3.RealSort())
            fdt = dt if (dt is None or dt.kind == 'f') else _np.dtype('float64')
            return SymReal(f(ta, tb), fdt if op == 'truediv' else dt)
        if op == 'truediv':
            if kind == 'i':
                if _ENG.concretize_divisors and not z3.is_int_value(z3.simplify(tb)) \
                        and not z3.is_int_value(z3.simplify(ta)):
                    # symbolic / symbolic: concretise the integer divisor (keeps arithmetic linear)
                    tb = z3.IntVal(_ENG.concretize(tb))
                ta, tb = z3.ToReal(ta), z3.ToReal(tb)
            elif _ENG.concretize_divisors and z3.is_app_of(tb, z3.Z3_OP_TO_REAL) \
                    and not z3.is_rational_value(z3.simplify(ta)) \
                    and not z3.is_int_value(z3.simplify(tb.arg(0))):
                tb = z3.ToReal(z3.IntVal(_ENG.concretize(tb.arg(0))))
            if z3.is_true(z3.simplify(tb == 0)):
                raise ZeroDivisionError('division by zero')
            fdt = None if dt is None else (dt if dt.kind == 'f' else _np.dtype('float64'))
            return SymReal(ta / tb, fdt)
        if op == 'floordiv':
            if kind == 'i':
                return _mk('i', _floordiv(ta, tb), dt)
            q = ta / tb
            return SymReal(z3.ToReal(z3.ToInt(q)), dt)
        if op == 'mod':
            if kind == 'i':
                return _mk('i', _pymod(ta, tb), dt)
            q = z3.ToReal(z3.ToInt(ta / tb))
            return SymReal(ta - q * tb, dt)
        if op == 'pow':
            tbs = z3.simplify(tb)
            if _ENG is not None and _ENG.uf_division and ARRAY_CTX[0] and not (
                    z3.is_int_value(z3.simplify(ta)) or z3.is_rational_value(z3.simplify(ta))):
                # powers of symbolic samples as an uninterpreted function (products of symbolic terms
                # of growing degree stall the nonlinear solver)
                if kind == 'i':
                    f = z3.Function('pow_ii', z3.IntSort(), z3.IntSort(), z3.IntSort())
                    return _mk('i', f(ta, tb), dt)
                f = z3.Function('pow_rr', z3.RealSort(), z3.RealSort(), z3.RealSort())
                return SymReal(f(ta, tb), dt)
            if kind == 'i' and z3.is_int_value(tbs) and 0 <= tbs.as_long() <= 8:
                r = z3.IntVal(1)
                for _ in range(tbs.as_long()):
                    r = r * ta
                return _mk('i', r, dt)
            if kind == 'r' and z3.is_rational_value(tbs) and tbs.denominator_as_long() == 1 \
                    and 0 <= tbs.numerator_as_long() <= 8:
                r = z3.RealVal(1)
                for _ in range(tbs.numerator_as_long()):
                    r = r * ta
                return SymReal(r, dt)
            # anything else: an uninterpreted function (sound over-approximation; a counterexample
            # that depends on it will not replay and is then reported as inconclusive)
            if kind == 'i':
                f = z3.Function('pow_ii', z3.IntSort(), z3.IntSort(), z3.IntSort())
                return _mk('i', f(ta, tb), dt)
            f = z3.Function('pow_rr', z3.RealSort(), z3.RealSort(), z3.RealSort())
            return SymReal(f(ta, tb), dt)
        if op == 'lt':
            return SymBool(ta < tb)
        if op == 'le':
            return SymBool(ta <= tb)
        if op == 'gt':
            return SymBool(ta > tb)
        if op == 'ge':
            return SymBool(ta >= tb)
        if op == 'eq':
            return SymBool(ta == tb)
        if op == 'ne':
            return SymBool(ta != tb)
        raise NotImplementedError(op)

    def __add__(self, o): return self._bin(o, 'add')
    def __radd__(self, o): return self._bin(o, 'add', True)
    def __sub__(self, o): return self._bin(o, 'sub')
    def __rsub__(self, o): return self._bin(o, 'sub', True)
    def __mul__(self, o): return self._bin(o, 'mul')
    def __rmul__(self, o): return self._bin(o, 'mul', True)
    def __truediv__(self, o): return self._bin(o, 'truediv')
    def __rtruediv__(self, o): return self._bin(o, 'truediv', True)
    def __floordiv__(self, o): return self._bin(o, 'floordiv')
    def __rfloordiv__(self, o): return self._bin(o, 'floordiv', True)
    def __mod__(self, o): return self._bin(o, 'mod')
    def __rmod__(self, o): return self._bin(o, 'mod', True)
    def __pow__(self, o): return self._bin(o, 'pow')
    def __rpow__(self, o): return self._bin(o, 'pow', True)
    def __lt__(self, o): return self._bin(o, 'lt')
    def __le__(self, o): return self._bin(o, 'le')
    def __gt__(self, o): return self._bin(o, 'gt')
    def __ge__(self, o): return self._bin(o, 'ge')

    def __eq__(self, o):
        r = self._bin(o, 'eq')
        return False if r is NotImplemented else r

    def __ne__(self, o):
        r = self._bin(o, 'ne')
        return True if r is NotImplemented else r

    def __hash__(self):
        # dict/set semantics: constant -> the value's hash; with engine.hash_concretize the value is
        # enumerated (exact dict behaviour with mixed concrete/symbolic keys); otherwise all symbolic keys
        # collide and are told apart by __eq__ (forks), which needs every key of that dict to be symbolic.
        t = z3.simplify(self.term)
        if z3.is_int_value(t):
            return hash(t.as_long())
        if _ENG is not None and _ENG.hash_concretize and z3.is_int(t):
            return hash(_ENG.concretize(t))
        return 0

    def __pos__(self):
        return self

    def __bool__(self):
        return _ENG.branch(self.term != 0)

    @property
    def dtype(self):
        if self.dt is not None:
            return self.dt
        return _np.dtype('int64') if isinstance(self, SymInt) else _np.dtype('float64')

    ndim = 0
    shape = ()

    def item(self):
        return type(self)(self.term, None)

    def astype(self, dt):
        from . import symnp
        return symnp.cast_scalar(self, dt)


class SymInt(_Num):
    __slots__ = ()

    def __init__(self, term, dt=None):
        if isinstance(term, int):
            term = z3.IntVal(term)
        self.term = term
        self.dt = _np_dt(dt)

    def __neg__(self):
        return _mk('i', -self.term, self.dt)

    def __abs__(self):
        return SymInt(z3.If(self.term >= 0, self.term, -self.term), self.dt)

    def __index__(self):
        return _ENG.concretize(self.term)

    def __int__(self):
        return _ENG.concretize(self.term)

    def __float__(self):
        return float(_ENG.concretize(self.term))

    def __round__(self, n=None):
        return self

    def __and__(self, o):
        raise Inconclusive('bitwise and on symbolic int')

    def __repr__(self):
        return 'SymInt(%s%s)' % (z3.simplify(self.term), '' if self.dt is None else ':%s' % self.dt)


class SymReal(_Num):
    __slots__ = ()

    def __init__(self, term, dt=None):
        if isinstance(term, (int, float)):
            term = _realval(float(term))
        self.term = term
        self.dt = _np_dt(dt)

    def __neg__(self):
        return SymReal(-self.term, self.dt)

    def __abs__(self):
        return SymReal(z3.If(self.term >= 0, self.term, -self.term), self.dt)

    def __float__(self):
        raise Inconclusive('float() of a symbolic real')

    def __repr__(self):
        return 'SymReal(%s)' % z3.simplify(self.term)


class SymBool(Sym):
    __slots__ = ()

    def __init__(self, term):
        if isinstance(term, bool):
            term = z3.BoolVal(term)
        self.term = term
        self.dt = None

    dtype = _np.dtype('bool')
    ndim = 0
    shape = ()

    def __bool__(self):
        return _ENG.branch(self.term)

    def __invert__(self):
        return SymBool(z3.Not(self.term))

    def __and__(self, o):
        return SymBool(z3.And(self.term, _bool_term(o)))

    __rand__ = __and__

    def __or__(self, o):
        return SymBool(z3.Or(self.term, _bool_term(o)))

    __ror__ = __or__

    def __xor__(self, o):
        return SymBool(z3.Xor(self.term, _bool_term(o)))

    __rxor__ = __xor__

    def __eq__(self, o):
        if isinstance(o, (SymBool, bool, _np.bool_)):
            return SymBool(self.term == _bool_term(o))
        return self._num() == o

    def __ne__(self, o):
        if isinstance(o, (SymBool, bool, _np.bool_)):
            return SymBool(self.term != _bool_term(o))
        return self._num() != o

    def __hash__(self):
        return 0

    def _num(self):
        return SymInt(_b2i(self.term))

    def __add__(self, o): return self._num() + o
    def __radd__(self, o): return o + self._num()
    def __sub__(self, o): return self._num() - o
    def __rsub__(self, o): return o - self._num()
    def __mul__(self, o): return self._num() * o
    def __rmul__(self, o): return o * self._num()
    def __lt__(self, o): return self._num() < o
    def __le__(self, o): return self._num() <= o
    def __gt__(self, o): return self._num() > o
    def __ge__(self, o): return self._num() >= o

    def __index__(self):
        return int(bool(self))

    def __int__(self):
        return int(bool(self))

    def item(self):
        return self

    def __repr__(self):
        return 'SymBool(%s)' % z3.simplify(self.term)


def is_sym(x):
    return isinstance(x, Sym)


def term_of(x):
    """z3 term of a scalar (Sym or concrete)."""
    c = _classify(x)
    if c is None:
        raise TypeError('not a scalar: %r' % (x,))
    return c[1]


def ite(c, a, b):
    """Non-forking if-then-else on scalars."""
    ct = _bool_term(c)
    cs = z3.simplify(ct)
    if z3.is_true(cs):
        return a
    if z3.is_false(cs):
        return b
    ca, cb = _classify(a), _classify(b)
    if ca[0] == 'b' and cb[0] == 'b':
        return SymBool(z3.If(ct, ca[1], cb[1]))
    kind, ta, tb, dt = _coerce(a, b)
    if kind == 'i':
        return SymInt(z3.If(ct, ta, tb), dt)
    return SymReal(z3.If(ct, ta, tb), dt)


def sand(*xs):
    return SymBool(z3.And(*[_bool_term(x) for x in xs])) if xs else SymBool(True)


def sor(*xs):
    return SymBool(z3.Or(*[_bool_term(x) for x in xs])) if xs else SymBool(False)


def snot(x):
    return SymBool(z3.Not(_bool_term(x)))


def implies(a, b):
    return SymBool(z3.Implies(_bool_term(a), _bool_term(b)))


def ssum(xs):
    r = 0
    for x in xs:
        r = r + x
    return r
