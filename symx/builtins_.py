"""Symbolic-aware replacements of a few builtins / math functions.  They are injected
as the *builtins namespace* of the phylib modules loaded by symx.loader, so the source
text of /repo is executed unmodified."""
import builtins as _b
import math as _math
import z3
import numpy as _np
from . import core
from .core import Sym, SymInt, SymReal, SymBool, is_sym, ite


class _IntMeta(type):
    def __instancecheck__(cls, x):
        return isinstance(x, (_b.int, SymInt)) and not isinstance(x, SymBool)

    def __subclasscheck__(cls, c):
        return issubclass(c, (_b.int, SymInt))

    def __call__(cls, x=0, *a, **k):
        if isinstance(x, SymInt):
            return SymInt(x.term, None)
        if isinstance(x, SymBool):
            return x._num()
        if isinstance(x, SymReal):
            # truncation toward zero
            t = x.term
            return SymInt(z3.If(t >= 0, z3.ToInt(t), -z3.ToInt(-t)), None)
        if hasattr(x, '__symint__'):
            return x.__symint__()
        if isinstance(x, str) and core.TOK in x:
            v = core.token_value(x)
            if isinstance(v, SymInt):
                return SymInt(v.term, None)
            raise ValueError('invalid literal for int() with base 10: %r' % (x,))
        return _b.int(x, *a, **k)

    def __eq__(cls, other):
        return other is cls or other is _b.int

    def __hash__(cls):
        return hash(_b.int)


class symint(metaclass=_IntMeta):
    from_bytes = _b.int.from_bytes
    __name__ = 'int'


class _FloatMeta(type):
    def __instancecheck__(cls, x):
        return isinstance(x, (_b.float, SymReal))

    def __subclasscheck__(cls, c):
        return issubclass(c, (_b.float, SymReal))

    def __call__(cls, x=0.0):
        if isinstance(x, SymReal):
            return SymReal(x.term, None)
        if isinstance(x, SymInt):
            return SymReal(z3.ToReal(x.term), None)
        if hasattr(x, '__symfloat__'):
            return x.__symfloat__()
        if isinstance(x, str) and core.TOK in x:
            v = core.token_value(x)
            if isinstance(v, SymReal):
                return SymReal(v.term, None)
            if isinstance(v, SymInt):
                return SymReal(z3.ToReal(v.term), None)
            raise ValueError('could not convert string to float: %r' % (x,))
        return _b.float(x)

    def __eq__(cls, other):
        return other is cls or other is _b.float

    def __hash__(cls):
        return hash(_b.float)


class symfloat(metaclass=_FloatMeta):
    __name__ = 'float'


def symrange(*args):
    if not any(is_sym(a) for a in args):
        return _b.range(*args)
    return _symrange(*args)


def _symrange(*args):
    if len(args) == 1:
        start, stop, step = 0, args[0], 1
    elif len(args) == 2:
        start, stop, step = args[0], args[1], 1
    else:
        start, stop, step = args
    if step == 0:
        raise ValueError('range() arg 3 must not be zero')
    up = True if step > 0 else False
    i = start
    n = 0
    e = core.eng()
    while True:
        cond = (i < stop) if up else (i > stop)
        if not cond:
            break
        n += 1
        if n > e.loop_bound:
            raise core.BoundExceeded('range loop bound %d' % e.loop_bound)
        yield i
        i = i + step


def symlen(x):
    f = getattr(x, '__symlen__', None)
    if f is not None:
        return f()
    return _b.len(x)


def _tag(x):
    if is_sym(x):
        return getattr(x, 'dtype', None)
    return x.dtype if isinstance(x, _np.generic) else None


def _minmax2(a, b, ismax):
    c = (a >= b) if ismax else (a <= b)
    if isinstance(c, SymBool):
        if _tag(a) != _tag(b):
            # max/min return one of the two *objects*: with differently typed operands (a NumPy scalar and
            # a Python int) the type of the result depends on the comparison, so the path forks
            return a if _b.bool(c) else b
        return ite(c, a, b)
    return a if c else b


def _scalarish(x):
    return is_sym(x) or isinstance(x, (_b.int, _b.float, _np.generic))


def symmax(*args, **kw):
    if len(args) == 2 and not kw and _scalarish(args[0]) and _scalarish(args[1]) \
            and (is_sym(args[0]) or is_sym(args[1])):
        return _minmax2(args[0], args[1], True)
    return _b.max(*args, **kw)


def symmin(*args, **kw):
    if len(args) == 2 and not kw and _scalarish(args[0]) and _scalarish(args[1]) \
            and (is_sym(args[0]) or is_sym(args[1])):
        return _minmax2(args[0], args[1], False)
    return _b.min(*args, **kw)


def symround(x, n=None):
    if isinstance(x, SymReal):
        from . import symnp
        return symnp.round_scalar(x)
    if isinstance(x, SymInt):
        return x
    return _b.round(x) if n is None else _b.round(x, n)


def symceil(x):
    if isinstance(x, SymReal):
        return SymInt(-z3.ToInt(-x.term), None)
    if isinstance(x, SymInt):
        return x
    return _math.ceil(x)


def symfloor(x):
    if isinstance(x, SymReal):
        return SymInt(z3.ToInt(x.term), None)
    if isinstance(x, SymInt):
        return x
    return _math.floor(x)


class _MathModule(object):
    def __getattr__(self, n):
        return getattr(_math, n)
    ceil = staticmethod(symceil)
    floor = staticmethod(symfloor)


fake_math = _MathModule()


def make_builtins(extra=None):
    d = dict(vars(_b))
    d.update({'int': symint, 'float': symfloat, 'range': symrange, 'len': symlen,
              'max': symmax, 'min': symmin, 'round': symround})
    if extra:
        d.update(extra)
    return d
