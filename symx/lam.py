"""symx.lam -- lambda arrays: arrays whose shape may contain *symbolic* (unbounded)
dimensions.  An array is (shape, dtype, elem) where elem maps an index tuple of scalars
to the raw element.  Slicing with symbolic bounds, gathers, functional updates (setitem),
concatenation and elementwise arithmetic are closed over this representation; equalities
are decided with a skolemised index."""
import builtins as _b
import operator
import z3
import numpy as _np

from . import core
from .core import Sym, SymInt, SymReal, SymBool, ite, sand, sor, Inconclusive
from . import symnp as snp
from .symnp import ndarray, cast_elem, _strip, mkscalar, _dt


def _conc_dim(d):
    return operator.index(d) if isinstance(d, Sym) else d


def _max0(x):
    c = x > 0
    if isinstance(c, SymBool):
        return ite(c, x, 0)
    return x if c else 0


def _min2(a, b):
    c = a <= b
    if isinstance(c, SymBool):
        return ite(c, a, b)
    return a if c else b


def _max2(a, b):
    c = a >= b
    if isinstance(c, SymBool):
        return ite(c, a, b)
    return a if c else b


def _simp(x):
    if isinstance(x, SymInt):
        t = z3.simplify(x.term)
        if z3.is_int_value(t):
            return t.as_long()
    return x


class LArr(ndarray):
    def __init__(self, shape, dt, elem):
        self._shape = tuple(_simp(s) for s in shape)
        self.dtype = _dt(dt)
        self.elem = elem

    a = property(lambda self: self.to_carr().a)

    @property
    def shape(self):
        return self._shape

    @property
    def ndim(self):
        return len(self._shape)

    @property
    def size(self):
        r = 1
        for s in self._shape:
            r = r * s
        return r

    def __symlen__(self):
        return self._shape[0]

    def __len__(self):
        return _conc_dim(self._shape[0])

    def __iter__(self):
        n = len(self)
        for i in range(n):
            yield self[i]

    def __repr__(self):
        return 'LArr(shape=%s, dtype=%s)' % (self._shape, self.dtype)

    def is_conc(self):
        return False

    def conc_shape(self):
        return not _b.any(isinstance(s, Sym) for s in self._shape)

    def to_carr(self):
        shape = tuple(_conc_dim(s) for s in self._shape)
        out = _np.empty(shape, dtype=object)
        for idx in _np.ndindex(shape):
            out[idx] = _strip(self.elem(idx))
        return ndarray(out, self.dtype)

    def real(self):
        return self.to_carr().real()

    def copy(self):
        return LArr(self._shape, self.dtype, self.elem)

    def astype(self, dt, copy=True):
        dt = _dt(dt)
        if dt == self.dtype:
            return self.copy()
        f = self.elem
        return LArr(self._shape, dt, lambda idx: cast_elem(_strip(f(idx)), dt))

    def tobytes(self, order='C'):
        return snp.BytesToken(self.copy(), self.dtype)

    def ravel(self):
        if self.ndim == 1:
            return self
        return self.to_carr().ravel()

    def reshape(self, *shape):
        return self.to_carr().reshape(*shape)

    def squeeze(self, axis=None):
        keep = [i for i, s in enumerate(self._shape) if not (not isinstance(s, Sym) and s == 1)]
        f = self.elem
        nd = self.ndim

        def g(idx):
            full = [0] * nd
            for k, i in enumerate(keep):
                full[i] = idx[k]
            return f(tuple(full))
        return _finish(LArr(tuple(self._shape[i] for i in keep), self.dtype, g))

    def __bool__(self):
        return _b.bool(self.to_carr())

    # -- indexing --------------------------------------------------------------------------
    def _plan(self, key):
        """-> list of per-input-dim specs and the list of output dims.
        spec kinds: ('int', k) ('slice', start, length, step) ('idx', [positions])
        plus pseudo-dims ('new',) in the output."""
        if not isinstance(key, tuple):
            key = (key,)
        # expand ellipsis
        n_real = _b.sum(1 for k in key if k is not None and k is not Ellipsis)
        if _b.any(k is Ellipsis for k in key):
            i = [j for j, k in enumerate(key) if k is Ellipsis][0]
            key = key[:i] + (slice(None),) * (self.ndim - n_real) + key[i + 1:]
        else:
            key = key + (slice(None),) * (self.ndim - n_real)
        specs = []   # aligned with output construction order
        dim = 0
        for k in key:
            if k is None:
                specs.append(('new',))
                continue
            n = self._shape[dim]
            dim += 1
            if isinstance(k, slice):
                step = k.step
                if isinstance(step, Sym):
                    step = operator.index(step)
                if step is None:
                    step = 1
                if step == 1:
                    start = 0 if k.start is None else _clampidx(k.start, n)
                    stop = n if k.stop is None else _clampidx(k.stop, n)
                    specs.append(('slice', start, _max0(stop - start), 1))
                elif step == -1 and k.start is None and k.stop is None:
                    specs.append(('slice', n - 1, n, -1))
                else:
                    raise Inconclusive('lambda array: slice step %r' % (step,))
            elif isinstance(k, (list, tuple, ndarray, _np.ndarray)):
                ka = snp.asarray(list(k) if isinstance(k, tuple) else k)
                if ka.dtype.kind == 'b':
                    m = [_b.bool(v) for v in ka.a.ravel().tolist()]
                    nn = _conc_dim(n)
                    if len(m) != nn:
                        raise IndexError('boolean index did not match indexed array')
                    pos = [i for i, v in enumerate(m) if v]
                elif ka.ndim != 1:
                    raise Inconclusive('lambda array: nd index array')
                else:
                    pos = []
                    for v in ka.a.tolist():
                        if isinstance(v, Sym) or v < 0:
                            v = _wrapidx(v, n)
                        else:
                            if _b.bool(v >= n):
                                raise IndexError('index %s is out of bounds' % v)
                        pos.append(v)
                specs.append(('idx', pos))
            elif isinstance(k, (SymBool, _b.bool, _np.bool_)):
                raise Inconclusive('lambda array: scalar boolean index')
            else:
                specs.append(('int', _wrapidx(k, n)))
        assert dim == self.ndim, 'too many indices for array'
        return specs

    def __getitem__(self, key):
        specs = self._plan(key)
        oshape = []
        for s in specs:
            if s[0] == 'new':
                oshape.append(1)
            elif s[0] == 'slice':
                oshape.append(s[2])
            elif s[0] == 'idx':
                oshape.append(len(s[1]))
        f = self.elem

        def g(oidx):
            it = iter(oidx)
            inn = []
            for s in specs:
                if s[0] == 'new':
                    next(it)
                elif s[0] == 'int':
                    inn.append(s[1])
                elif s[0] == 'slice':
                    o = next(it)
                    inn.append(s[1] + o if s[3] == 1 else s[1] - o)
                else:
                    o = next(it)
                    inn.append(_select(s[1], o))
            return f(tuple(inn))
        if not oshape:
            return mkscalar(_strip(g(())), self.dtype)
        return _finish(LArr(tuple(oshape), self.dtype, g))

    def __setitem__(self, key, value):
        kt = key if isinstance(key, tuple) else (key,)
        if _b.any(isinstance(k, (_b.bool, _np.bool_)) for k in kt):
            # NumPy: a scalar False index selects nothing, a scalar True index adds a unit axis
            if _b.any(isinstance(k, (_b.bool, _np.bool_)) and not k for k in kt):
                return
            key = tuple(None if isinstance(k, (_b.bool, _np.bool_)) else k for k in kt)
        specs = self._plan(key)
        dt = self.dtype
        oshape = []
        for s in specs:
            if s[0] == 'new':
                oshape.append(1)
            elif s[0] == 'slice':
                oshape.append(s[2])
            elif s[0] == 'idx':
                oshape.append(len(s[1]))
        if isinstance(value, (list, tuple, _np.ndarray)):
            value = snp.asarray(value)
        if isinstance(value, ndarray):
            vshape = value.shape
            if len(vshape) > len(oshape):
                # leading 1-dims may be dropped
                extra = len(vshape) - len(oshape)
                if _b.any(_b.bool(d != 1) for d in vshape[:extra]):
                    raise ValueError('could not broadcast input array')
            velem = _elem_fn(value)
            nv = len(vshape)

            def vget(oidx):
                # align trailing dims
                oi = list(oidx)
                vi = []
                for j in range(nv):
                    k = len(oi) - nv + j
                    if k < 0:
                        vi.append(0)
                    else:
                        d = vshape[j]
                        vi.append(0 if (not isinstance(d, Sym) and d == 1 and
                                        not (not isinstance(oshape[k], Sym) and oshape[k] == 1))
                                  else oi[k])
                return cast_elem(_strip(velem(tuple(vi))), dt)
            # shape compatibility obligations: each aligned dim equal or value dim 1
            for j in range(nv):
                k = len(oshape) - nv + j
                if k < 0:
                    continue
                d = vshape[j]
                if not isinstance(d, Sym) and d == 1:
                    continue
                if _b.bool(d != oshape[k]):
                    raise ValueError('could not broadcast input array from shape %s into shape %s'
                                     % (vshape, tuple(oshape)))
        else:
            cv = cast_elem(_strip(value), dt)

            def vget(oidx):
                return cv
        old = self.elem

        def g(idx):
            conds = []
            oidx = []
            dim = 0
            for s in specs:
                if s[0] == 'new':
                    oidx.append(0)
                    continue
                i = idx[dim]
                dim += 1
                if s[0] == 'int':
                    conds.append(i == s[1])
                elif s[0] == 'slice':
                    if s[3] == 1:
                        o = i - s[1]
                    else:
                        o = s[1] - i
                    conds.append(o >= 0)
                    conds.append(o < s[2])
                    oidx.append(o)
                else:
                    cs = [i == p for p in s[1]]
                    conds.append(_or(cs))
                    o = 0
                    for j, c in enumerate(cs):
                        o = _ite(c, j, o)
                    oidx.append(o)
            c = _and(conds)
            if c is True:
                return vget(tuple(oidx))
            if c is False:
                return old(idx)
            return _strip(ite(c, vget(tuple(oidx)), old(idx)))
        self.elem = g

    # arithmetic falls back to symnp._ew2 -> lam.ew2 via ndarray dunders
    def __neg__(self):
        f = self.elem
        dt = self.dtype
        return LArr(self._shape, dt, lambda idx: cast_elem(-f(idx), dt))

    def __pos__(self):
        return self.copy()

    def __abs__(self):
        f = self.elem
        return LArr(self._shape, self.dtype, lambda idx: _b.abs(f(idx)))

    def __eq__(self, o):
        return snp._ew2('eq', self, o)

    def __ne__(self, o):
        return snp._ew2('ne', self, o)

    __hash__ = None

    def _inplace(self, op, o):
        r = snp._ew2(op, self, o).astype(self.dtype)
        self.elem = r.elem if isinstance(r, LArr) else _elem_fn(r)
        return self

    @property
    def T(self):
        if self.ndim != 2:
            raise Inconclusive('T')
        f = self.elem
        return LArr((self._shape[1], self._shape[0]), self.dtype, lambda idx: f((idx[1], idx[0])))

    def max(self, *a, **k): return self.to_carr().max(*a, **k)
    def min(self, *a, **k): return self.to_carr().min(*a, **k)
    def sum(self, *a, **k): return self.to_carr().sum(*a, **k)
    def any(self, *a, **k): return self.to_carr().any(*a, **k)
    def all(self, *a, **k): return self.to_carr().all(*a, **k)
    def argmax(self, *a, **k): return self.to_carr().argmax(*a, **k)
    def argmin(self, *a, **k): return self.to_carr().argmin(*a, **k)
    def tolist(self): return self.to_carr().tolist()
    def flatten(self): return self.to_carr().flatten()
    def transpose(self, *a): return self.to_carr().transpose(*a)
    def swapaxes(self, *a): return self.to_carr().swapaxes(*a)


def _and(cs):
    out = []
    for c in cs:
        if isinstance(c, SymBool):
            t = z3.simplify(c.term)
            if z3.is_true(t):
                continue
            if z3.is_false(t):
                return False
            out.append(c)
        elif not c:
            return False
    if not out:
        return True
    return sand(*out)


def _or(cs):
    out = []
    for c in cs:
        if isinstance(c, SymBool):
            t = z3.simplify(c.term)
            if z3.is_false(t):
                continue
            if z3.is_true(t):
                return True
            out.append(c)
        elif c:
            return True
    if not out:
        return False
    return sor(*out)


def _ite(c, a, b):
    if isinstance(c, SymBool):
        return _strip(ite(c, a, b))
    return a if c else b


def _select(lst, o):
    """lst[o] for possibly symbolic o (ite chain)."""
    if not isinstance(o, Sym):
        return lst[o]
    t = z3.simplify(o.term)
    if z3.is_int_value(t):
        return lst[t.as_long()]
    r = lst[-1]
    for j in range(len(lst) - 2, -1, -1):
        r = _ite(o == j, lst[j], r)
    return r


def _wrapidx(k, n):
    """integer index with negative wrap; out-of-range raises IndexError (forks)."""
    if isinstance(k, ndarray):
        k = k.__symint__()
    if isinstance(k, _np.generic):
        k = k.item()
    if isinstance(k, Sym) or isinstance(n, Sym):
        if _b.bool((k >= n) | (k < -n)):
            raise IndexError('index out of bounds')
        return _strip(_ite(k < 0, k + n, k))
    if k >= n or k < -n:
        raise IndexError('index %d is out of bounds for axis with size %d' % (k, n))
    return k + n if k < 0 else k


def _clampidx(v, n):
    if isinstance(v, _np.generic):
        v = v.item()
    v = _strip(v) if isinstance(v, Sym) else v
    v = _ite(v < 0, v + n, v)
    v = _ite(v < 0, 0, v)
    v = _ite(v > n, n, v)
    return v


def _elem_fn(x):
    """element accessor idx->raw for LArr or concrete-shape ndarray (ite select)."""
    if isinstance(x, LArr):
        return x.elem
    a = x.a

    def f(idx):
        if not _b.any(isinstance(i, Sym) for i in idx):
            return a[tuple(idx)]
        # nested select
        def rec(sub, k):
            if k == len(idx):
                return sub
            i = idx[k]
            if not isinstance(i, Sym):
                return rec(sub[i], k + 1)
            opts = [rec(sub[j], k + 1) for j in range(sub.shape[0])]
            if not opts:
                return 0
            return _select(opts, i)
        return rec(a, 0)
    return f


def _finish(l):
    """materialise when the shape is fully concrete"""
    if l.conc_shape():
        n = 1
        for s in l._shape:
            n *= s
        if n <= 4096:
            return l.to_carr()
    return l


def const(shape, v, dt):
    cv = cast_elem(_strip(v), dt)
    return LArr(shape, dt, lambda idx: cv)


def atleast_2d(x):
    if isinstance(x, LArr):
        if x.ndim >= 2:
            return x
        f = x.elem
        if x.ndim == 1:
            return LArr((1,) + x.shape, x.dtype, lambda idx: f((idx[1],)))
        return LArr((1, 1), x.dtype, lambda idx: f(()))
    return snp.atleast_2d(x)


def from_carr(x):
    return LArr(x.shape, x.dtype, _elem_fn(x))


def concatenate(arrs, axis=0):
    if axis != 0:
        raise Inconclusive('lambda concatenate on axis != 0')
    arrs = [snp.asarray(a) for a in arrs]
    dt = _np.result_type(*[a.dtype for a in arrs])
    nd = arrs[0].ndim
    for a in arrs:
        if a.ndim != nd:
            raise ValueError('all the input array dimensions must match')
        for j in range(1, nd):
            if _b.bool(a.shape[j] != arrs[0].shape[j]):
                raise ValueError('all the input array dimensions except for the concatenation '
                                 'axis must match exactly')
    fns = [_elem_fn(a) for a in arrs]
    offs = [0]
    for a in arrs:
        offs.append(offs[-1] + a.shape[0])

    def g(idx):
        i = idx[0]
        r = None
        if not isinstance(i, Sym) and not _b.any(isinstance(o, Sym) for o in offs):
            for k in range(len(arrs)):
                if offs[k] <= i < offs[k + 1]:
                    return cast_elem(_strip(fns[k]((i - offs[k],) + tuple(idx[1:]))), dt)
            raise IndexError('index %s out of bounds' % (i,))
        for k in range(len(arrs) - 1, -1, -1):
            j = i - offs[k]
            if not isinstance(j, Sym) and not isinstance(arrs[k].shape[0], Sym) and not (0 <= j < arrs[k].shape[0]):
                continue      # this part cannot hold the row
            v = cast_elem(_strip(fns[k]((j,) + tuple(idx[1:]))), dt)
            if r is None:
                r = v
            else:
                r = _ite(i < offs[k + 1], v, r)
        if r is None:
            raise IndexError('index out of bounds')
        return r
    return _finish(LArr((offs[-1],) + tuple(arrs[0].shape[1:]), dt, g))


def ew2(op, x, y):
    with _np.errstate(all='ignore'):
        rdt = _np.asarray(snp._PYOPS[op](snp._dummy(x), snp._dummy(y))).dtype
    f = snp._PYOPS[op]

    def parts(o):
        if isinstance(o, (list, tuple, _np.ndarray)):
            o = snp.asarray(o)
        if isinstance(o, ndarray):
            return o.shape, _elem_fn(o)
        v = _strip(o)
        return (), (lambda idx: v)
    sx, fx = parts(x)
    sy, fy = parts(y)
    nd = _b.max(len(sx), len(sy))
    px = (1,) * (nd - len(sx)) + tuple(sx)
    py = (1,) * (nd - len(sy)) + tuple(sy)
    oshape = []
    bx, by = [], []
    for dx, dy in zip(px, py):
        one_x = not isinstance(dx, Sym) and dx == 1
        one_y = not isinstance(dy, Sym) and dy == 1
        if one_x and not one_y:
            oshape.append(dy)
            bx.append(True)
            by.append(False)
        elif one_y and not one_x:
            oshape.append(dx)
            bx.append(False)
            by.append(True)
        else:
            if _b.bool(dx != dy):
                raise ValueError('operands could not be broadcast together')
            oshape.append(dx)
            bx.append(False)
            by.append(False)
    ox, oy = nd - len(sx), nd - len(sy)

    def g(idx):
        ix = tuple(0 if bx[k] else idx[k] for k in range(ox, nd))
        iy = tuple(0 if by[k] else idx[k] for k in range(oy, nd))
        u, v = fx(ix), fy(iy)
        if op == 'truediv' and not isinstance(u, Sym) and not isinstance(v, Sym):
            return (_np.float64(u) / _np.float64(v)).item()
        core.ARRAY_CTX[0] = True
        try:
            return cast_elem(f(u, v), rdt)
        finally:
            core.ARRAY_CTX[0] = False
    return _finish(LArr(tuple(oshape), rdt, g))


def forall_index(arr, name='k'):
    """Fresh in-range index tuple (skolem constants) for a universally quantified claim."""
    e = core.eng()
    idx = []
    guard = []
    for d, s in enumerate(arr.shape):
        i = e.int('%s%d' % (name, d))
        guard.append(i >= 0)
        guard.append(i < s)
        idx.append(i)
    return tuple(idx), sand(*guard)


def elem(arr, idx):
    return _elem_fn(arr)(tuple(idx))
