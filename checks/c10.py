"""C10 Saved curation state survives any save/reload history."""
import sys
import os
import itertools
import z3
import numpy as np

from symx import core, env, lam, harness, vfs, symnp as snp
from symx.core import SymInt, SymReal, SymBool, sand, sor, snot, implies, ite
from checks import datasets
from checks.datasets import RATE

PID = 'C10'
FUNCTIONS = ['phylib/io/model.py:' + f for f in (
    'TemplateModel.save_spike_clusters', 'TemplateModel.save_metadata', 'save_metadata',
    'TemplateModel._load_metadata', 'load_metadata', 'TemplateModel.save_spikes_subset_waveforms',
    'TemplateModel._load_spike_waveforms', 'TemplateModel.close', '_close_memmap', 'load_model',
    'TemplateModel._template_n_channels')] + [
    'phylib/utils/_misc.py:_write_tsv_simple', 'phylib/utils/_misc.py:read_tsv',
    'phylib/utils/_misc.py:_try_make_number', 'phylib/io/array.py:SpikeSelector.__call__',
    'phylib/io/traces.py:export_waveforms']
BOUNDS = {
    'quick': {'history_length': '<= 3 operations + final reload', 'dataset': '3 spikes x 2 templates x 3 channels',
              'unbounded': ['reassignment ids (< T+2)', 'metadata integer and real values', 'recording length']},
    'thorough': {'history_length': '<= 4 operations + final reload', 'dataset': '3 spikes x 2 templates x 3 channels',
                 'unbounded': ['reassignment ids (< T+2)', 'metadata integer and real values', 'recording length']},
}
ASSUMPTIONS = [
    'operations: save_spike_clusters(symbolic reassignment), save_spike_clusters(the assignment the dataset was created with), save_metadata for an integer field (twice, with '
    'different key sets), a string field with a None entry, a real-valued field; writing a valid foreign TSV and '
    'CSV; writing malformed files (empty, header only, ragged row, no cluster_id column); exporting the '
    'spike-waveform subset (when raw data exist); close + reload.  The operation sequence is solver-enumerated.',
    'numbers written to text files are placeholders decoded by int()/float() (axiom: int(str(i)) == i, '
    'float(repr(x)) == x); string values are non-numeric labels',
    'different metadata files define different fields (directory order is unspecified on a real file system)',
    'forms added after seeding rounds: foreign CSV whose columns are named like saved fields, tab-delimited .csv and comma-delimited .tsv foreign tables, hard-linked cluster file, dataset without cluster file',
    "round 7: operation meta_clear (a saved field saved again with an empty mapping or only None entries); with a colliding legacy CSV present the reload shows that table's value, as the pinned code does (the statement does not decide this corner)",
]
STUBS = ['virtual file system', 'np.random.choice (arbitrary subset)', 'tqdm']
OUTSIDE = ['byte formats of npy/TSV (replays run the same histories on a real directory)', 'longer histories']
WITNESS_CAP = {'quick': 25, 'thorough': 50}
LOOP_BOUND = 16

OPS = ['save_clusters', 'save_original', 'meta_int_a', 'meta_int_b', 'meta_str', 'meta_real', 'foreign_tsv', 'foreign_csv',
       'malformed', 'subset', 'foreign_collide', 'meta_clear', 'reload']
MALFORMED = ['', 'cluster_id\tbad\n', 'cluster_id\tbad\n1\n2\tx\ty\n', 'foo\tbar\n1\t2\n']


def configs(tier):
    quick = tier == 'quick'
    H = 3 if quick else 4
    out = []
    for raw in (False, True):
        for first in range(len(OPS) - 1):
            if OPS[first] == 'subset' and not raw:
                continue
            if raw and OPS[first] not in ('subset', 'save_clusters'):
                continue
            if not raw and H >= 4:
                for second in range(len(OPS)):
                    if OPS[second] == 'subset':
                        continue
                    out.append({'raw': raw, 'H': H, 'first': first, 'second': second})
            else:
                out.append({'raw': raw, 'H': H if not raw else 2, 'first': first})
    # dataset without a spike-cluster file (it is created from the templates at load time)
    for first in (0, 1):
        out.append({'raw': False, 'H': 2, 'first': first, 'nosc': True})
    return out


class Ref(object):
    def __init__(self, ds):
        self.sc = list(ds.sc)
        self.meta = {}
        self.saved = set()
        self.cleared = set()
        self.collide = False
        self.store = False


def apply_op(op, i, e, m, ds, ref, d, vals, real=False):
    """perform operation `op` on the model / directory and on the reference; `vals` carries the
    (symbolic or concrete) arguments"""
    T = ds_cfg(ds)['T']
    if op == 'save_clusters':
        new = vals['sc']
        arr = np.array(new, dtype=np.int32) if real else snp.ndarray(snp._fromlist(new, (len(new),)), 'int32')
        m.save_spike_clusters(arr)
        ref.sc = list(new)
    elif op == 'save_original':
        new = list(ds.sc)
        arr = np.array(new, dtype=np.int32) if real else snp.ndarray(snp._fromlist(new, (len(new),)), 'int32')
        m.save_spike_clusters(arr)
        ref.sc = list(new)
    elif op in ('meta_int_a', 'meta_int_b'):
        mp = {vals['k0']: vals['v0']} if op == 'meta_int_b' else {vals['k0']: vals['v0'], vals['k1']: vals['v1']}
        m.save_metadata('quality', mp)
        ref.meta['quality'] = dict(mp)
        ref.saved.add('quality')
        ref.cleared.discard('quality')
    elif op == 'meta_str':
        mp = {vals['k0']: 'good', vals['k1']: None, 5: 'mua, maybe'}
        m.save_metadata('note', mp)
        ref.meta['note'] = {k: v for k, v in mp.items() if v is not None}
    elif op == 'meta_real':
        mp = {vals['k0']: vals['x0'], 4: 0.25}
        m.save_metadata('score', mp)
        ref.meta['score'] = dict(mp)
        ref.saved.add('score')
    elif op == 'foreign_tsv':
        write_text(d, 'cluster_group.tsv', 'cluster_id\tgroup\n0\tgood\n3\tnoise\n', real)
        ref.meta['group'] = {0: 'good', 3: 'noise'}
        # legacy layout: tab-delimited table with a .csv name (the delimiter is read from the header line)
        write_text(d, 'cluster_groups.csv', 'cluster_id\tlgroup\n1\tmua\n', real)
        ref.meta['lgroup'] = {1: 'mua'}
    elif op == 'foreign_csv':
        write_text(d, 'cluster_depth.csv', 'cluster_id,depth,ch\n1,2.5,7\n2,,3\n', real)
        ref.meta['depth'] = {1: 2.5}
        ref.meta['ch'] = {1: 7, 2: 3}
        # comma-delimited table with a .tsv name
        write_text(d, 'exported_notes.tsv', 'cluster_id,cnote\n2,ok\n', real)
        ref.meta['cnote'] = {2: 'ok'}
    elif op == 'foreign_collide':
        # a legacy table of another tool carrying columns named like fields that are (or will be) saved:
        # the saved mapping is what a reload must show, whatever the file names are
        write_text(d, 'legacy_labels.csv', 'cluster_id,quality,score\n0,7,1.5\n', real)
        ref.collide = True
        for f, mp in (('quality', {0: 7}), ('score', {0: 1.5})):
            if f not in ref.saved or f in ref.cleared:
                ref.meta[f] = mp
    elif op == 'meta_clear':
        # the field saved with nothing in it (empty mapping, or only None entries): the earlier mapping is gone
        mp = {} if i % 2 == 0 else {vals['k0']: None}
        m.save_metadata('quality', mp)
        ref.saved.add('quality')
        ref.cleared.add('quality')
        if ref.collide:
            ref.meta['quality'] = {0: 7}      # what the legacy table of another tool says (a cleared field saves no row)
        else:
            ref.meta.pop('quality', None)
    elif op == 'malformed':
        write_text(d, 'cluster_bad%d.tsv' % vals['which'], MALFORMED[vals['which']], real)
        if vals['which'] == 2:
            ref.meta['bad'] = {2: 'x'}      # rows are zipped with the header: a short row yields no value,
            #                                  a long row is truncated to the header
    elif op == 'subset':
        m.save_spikes_subset_waveforms(max_n_spikes_per_template=2, max_n_channels=2)
        ref.store = True


def ds_cfg(ds):
    return ds.cfg if hasattr(ds, 'cfg') else ds


def write_text(d, name, text, real):
    if real:
        with open(os.path.join(d, name), 'w') as f:
            f.write(text)
    else:
        vfs.VPath(d + '/' + name).write_text(text)


def run_config(cfg, e):
    pkg = env.make_pkg(record=e.functions)
    e.concretize_shapes = True
    e.hash_concretize = True
    dcfg = {'ns': 3, 'T': 2, 'nc': 3, 'nsw': 2, 'names': 'ks', 'sym': [], 'wm': 'I',
            'optional': {'pc_features': 'no', 'template_features': 'no'}}
    if cfg.get('nosc'):
        dcfg['optional']['spike_clusters'] = 'no'
    if cfg['raw']:
        dcfg.update(raw=True, ncd=4, raw_parts=2)
        dcfg['optional']['raw'] = 'yes'

    def fn():
        vfs.reset()
        ds = datasets.build(e, dcfg)
        if ds.raw is not None:
            e.assume(ds.raw[1] >= 20)
            e.prefer.append(sand(ds.raw_sizes[0] >= 9, ds.raw_sizes[0] <= 11))
        mod = pkg.load('phylib.io.model')
        script = []
        ref = Ref(ds)
        T, ns = dcfg['T'], dcfg['ns']

        def case(ev):
            return dict(datasets.case_of(ev, ds), script=[[op, {k: ev(v) for k, v in vals.items()}]
                                                          for op, vals in script])
        e.case_builder = case
        try:
            m = mod.load_model(vfs.VPath(ds.dir + '/params.py'))
            for i in range(cfg['H']):
                allowed = [k for k, o in enumerate(OPS) if (o != 'subset' or cfg['raw'])]
                oi = cfg['first'] if i == 0 else (cfg['second'] if (i == 1 and 'second' in cfg) else
                                                  e.choice('op%d' % i, allowed))
                op = OPS[oi]
                vals = {}
                if op == 'save_clusters':
                    # one symbolic reassignment (any id, new ids included), the other spikes get fixed new ids
                    vals['sc'] = [e.int('n%d_%d' % (i, 0), 0, T + 1)] + [(k + i) % (T + 2) for k in range(1, ns)]
                elif op.startswith('meta'):
                    vals['k0'] = e.int('k0_%d' % i, 0, 3)
                    vals['k1'] = 7
                    vals['v0'], vals['v1'] = e.int('v0_%d' % i), e.int('v1_%d' % i)
                    e.prefer.append(sand(vals['v0'] >= -3, vals['v0'] <= 9, vals['v1'] >= -3, vals['v1'] <= 9))
                    vals['x0'] = e.real('x0_%d' % i)
                    e.prefer.append(sor(vals['x0'] == SymReal(z3.RealVal('1/2')), vals['x0'] == SymReal(z3.RealVal('3/4'))))
                    # a real that is an integer is written as e.g. 2.0 and read back as a float: keep it fractional
                    e.assume(SymBool(z3.Not(z3.IsInt(vals['x0'].term))))
                elif op == 'malformed':
                    vals['which'] = e.choice('mal%d' % i, [0, 1, 2, 3])
                script.append((op, vals))
                if op == 'reload':
                    m.close()
                    m = mod.load_model(vfs.VPath(ds.dir + '/params.py'))
                    compare(e, m, ds, ref, dcfg)
                else:
                    apply_op(op, i, e, m, ds, ref, ds.dir, vals)
            m.close()
            m = mod.load_model(vfs.VPath(ds.dir + '/params.py'))
        except Exception as ex:
            e.fail('exception %r' % (ex,))
        compare(e, m, ds, ref, dcfg)
        e.witness()

    e.explore(fn)


def compare(e, m, ds, ref, dcfg):
    ns, T, nc, nsw = dcfg['ns'], dcfg['T'], dcfg['nc'], dcfg['nsw']
    obl = []
    sc = snp.asarray(m.spike_clusters).a.tolist()
    for i in range(ns):
        obl.append((sc[i] == ref.sc[i], 'reloaded spike_clusters differ from the last saved assignment'))
        obl.append((snp.asarray(m.spike_templates).a[i] == ds.st[i], 'spike_templates changed'))
        obl.append((snp.asarray(m.spike_samples).a[i] == ds.ks[i], 'spike samples changed'))
    e.prove_all(obl)
    md = m.metadata
    obl = [(sorted(md.keys()) == sorted(ref.meta.keys()), 'metadata fields %s, expected %s' % (
        sorted(md.keys()), sorted(ref.meta.keys())))]
    e.prove_all(obl)
    obl = []
    for field, mp in ref.meta.items():
        got = md[field]
        obl.append((len(got) == len(mp), 'field %s has %d entries, expected %d' % (field, len(got), len(mp))))
        for k, v in mp.items():
            hits = []
            for gk, gv in got.items():
                if isinstance(v, str) or isinstance(gv, str):
                    same = (gv == v) if (isinstance(v, str) and isinstance(gv, str)) else False
                else:
                    same = gv == v
                hits.append(sand(gk == k, same))
            obl.append((sor(*hits) if hits else False, 'field %s: value of cluster %s not found after reload' % (field, k)))
            if not isinstance(v, (str, core.Sym)) and isinstance(v, float):
                pass
    e.prove_all(obl)
    # value types: integers stay integers, reals stay reals
    for field, mp in ref.meta.items():
        for gk, gv in md[field].items():
            want_types = {type(v) for v in mp.values()}
            if all(isinstance(v, (int, core.SymInt)) and not isinstance(v, bool) for v in mp.values()):
                e.prove(isinstance(gv, (int, core.SymInt)), 'integer metadata of %s came back as %s' % (field, type(gv).__name__))
    if ref.store:
        sw = m.spike_waveforms
        e.prove(sw is not None, 'spike-subset store not loaded after export')
        ids = [int(v) for v in snp.asarray(sw.spike_ids).a.tolist()]
        ch = snp.asarray(sw.spike_channels)
        wv = snp.asarray(sw.waveforms)
        e.prove(wv.shape == (len(ids), nsw, ch.shape[1]) and ch.shape[0] == len(ids), 'subset store shapes')
        e.prove(ids == sorted(set(ids)) and all(0 <= s < ns for s in ids), 'subset spike ids')
        D, nr, ncd, isz = ds.raw
        obl = []
        for k, sid in enumerate(ids):
            for t in range(nsw):
                for c in range(ch.shape[1]):
                    chan = ch.a[k, c]
                    row = ds.ks[sid] - nsw // 2 + t
                    inside = sand(row >= 0, row < nr, chan >= 0)
                    cmv = 0
                    for q in range(nc):
                        cmv = ite(chan == q, ds.cm[q], cmv)
                    want = ite(inside, D(ite(inside, row, 0), cmv), 0)
                    obl.append((wv.a[k, t, c] == want, 'subset-store waveform of spike %d differs from the raw data' % sid))
        e.prove_all(obl)


# ------------------------------------------------------------------------------------------

def replay(case):
    cfg = case['cfg']
    rd = datasets.RealDS(case)
    try:
        from phylib.io import model as mod
        params = os.path.join(rd.dir, 'params.py')
        ns, T, nc, nsw = cfg['ns'], cfg['T'], cfg['nc'], cfg['nsw']

        class DSr(object):
            pass
        ds = DSr()
        ds.cfg, ds.sc, ds.st, ds.ks = cfg, case['sc'], case['st'], case['ks']
        ref = Ref(ds)

        def cmp(m):
            if [int(v) for v in m.spike_clusters] != ref.sc:
                return 'reloaded spike_clusters %s, last saved %s' % (list(m.spike_clusters), ref.sc)
            if [int(v) for v in m.spike_templates] != case['st'] or [int(v) for v in m.spike_samples] != case['ks']:
                return 'templates/samples changed'
            if sorted(m.metadata.keys()) != sorted(ref.meta.keys()):
                return 'metadata fields %s, expected %s' % (sorted(m.metadata.keys()), sorted(ref.meta.keys()))
            for f, mp in ref.meta.items():
                got = m.metadata[f]
                if got != mp or any(type(got[k]) is not type(v) and not (isinstance(v, float) and isinstance(got[k], float))
                                    for k, v in mp.items()):
                    return 'metadata %s = %r, expected %r' % (f, got, mp)
            if ref.store:
                sw = m.spike_waveforms
                if sw is None:
                    return 'subset store not loaded'
                raw = rd.rawdata[:, case['cm']]
                for k, sid in enumerate(sw.spike_ids):
                    for c, chan in enumerate(sw.spike_channels[k]):
                        for t in range(nsw):
                            row = case['ks'][int(sid)] - nsw // 2 + t
                            want = raw[row, chan] if (0 <= row < raw.shape[0] and chan >= 0) else 0
                            if sw.waveforms[k, t, c] != want:
                                return 'subset waveform of spike %d differs from the raw data' % sid
            return None
        try:
            m = mod.load_model(params)
            for i, (op, vals) in enumerate(case['script']):
                if op == 'reload':
                    m.close()
                    m = mod.load_model(params)
                    msg = cmp(m)
                    if msg:
                        return msg
                else:
                    np.random.seed(i)
                    apply_op(op, i, None, m, ds, ref, rd.dir, vals, real=True)
            m.close()
            m = mod.load_model(params)
            msg = cmp(m)
            m.close()
            return msg
        except Exception as ex:
            return 'history %s raised %r' % ([o for o, _ in case['script']], ex)
    finally:
        rd.close()


def classify(case, failure):
    return None


if __name__ == '__main__':
    sys.exit(harness.main('checks.c10'))
