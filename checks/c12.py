"""C12 Merged channel and template arrays are block-structured by probe."""
import sys
import os
import itertools
import z3
import numpy as np

from symx import core, env, lam, harness, vfs, symnp as snp
from symx.core import SymInt, SymReal, sand, sor, snot, implies, ite, ssum
from checks import mergelib
from checks.c11 import run_merge

PID = 'C12'
FUNCTIONS = ['phylib/io/merge.py:' + f for f in (
    'Merger.write_channel_data', 'Merger.write_channel_positions', 'Merger.write_templates',
    'Merger.write_template_data', 'Merger.write_misc', 'Merger.write_params', '_concat', '_load_multiple_files',
    'Merger.merge')]
BOUNDS = {
    'quick': {'probes': '1..3', 'channels_per_probe': '1..3 (non-uniform)', 'templates_per_probe': '1..3 (non-uniform)',
              'waveform_samples': 2, 'unbounded': ['channel-map values', 'positions', 'template values',
                                                   'index-table values', 'matrix entries']},
    'thorough': {'probes': '1..4', 'channels_per_probe': '1..3', 'templates_per_probe': '1..3', 'waveform_samples': 2,
                 'unbounded': ['channel-map values', 'positions', 'template values', 'index-table values',
                               'matrix entries']},
}
ASSUMPTIONS = [
    'channel maps: distinct values in [0, n_channels_dat_p); positions: non-negative reals, distinct within a '
    'probe; index tables: channel table entries in [0, C_p), template table entries in [0, T_p), dtype int32 or '
    'uint32 by configuration; template dtype float32/float64 per probe by configuration (mixed included)',
    'channel and template *counts* per probe are concrete (non-uniform tuples included)',
    'load_model at the end of merge() replaced by a no-op; raw open(r+b) writes are modelled at element '
    'granularity on the virtual npy file',
    'forms added after seeding rounds: an optional matrix absent in one probe (nothing may be written for it), a non-final probe whose last template never fired, unequal template dtypes',
    'round 7: first probe with 256 channels and uint8 index tables (symbolic tables, concrete channels)',
]
STUBS = ['tqdm', 'load_model inside merge()', 'scipy.linalg.block_diag (reference implementation on symbolic '
         'matrices)', 'np.save/np.load/open (virtual file system)']
OUTSIDE = ['symbolic channel/template counts', 'npy byte layout (replays use real files)']
WITNESS_CAP = {'quick': 20, 'thorough': 40}


def configs(tier):
    quick = tier == 'quick'
    out = []
    shapes = [([2], [1]), ([1], [2]), ([2, 3], [1, 2]), ([3, 1], [2, 2]), ([2, 2], [3, 1]),
              ([2, 3, 2], [1, 2, 1]), ([1, 2, 3], [2, 1, 2]), ([3, 2, 1], [1, 1, 2])]
    if not quick:
        shapes += [([2, 1, 2, 1], [1, 2, 1, 1]), ([3, 3, 2], [2, 2, 2]), ([1, 1, 1], [3, 1, 2])]
    for k, (nch, ntpl) in enumerate(shapes):
        P = len(nch)
        for tdt in ('int32', 'uint32'):
            out.append({'P': P, 'spikes': [2] * P, 'nch': nch, 'ntpl': ntpl, 'nsw': 2, 'sym': 'channels',
                        'table_dtypes': [tdt] * P, 'map_dtypes': ['int32' if (k + p) % 2 else 'int64' for p in range(P)]
                        if tdt == 'int32' else ['uint32'] * P,
                        'tpl_dtypes': [['float32', 'float64'][(k + p + (tdt == 'uint32')) % 2] if k % 2 else
                                       ['float32', 'float64'][k % 4 // 2] for p in range(P)],
                        'optional_matrices': k % 3 == 0, 'unused_last_template': k % 2 == 0,
                        'optional_matrix': ['similar_templates.npy', 'whitening_mat_inv.npy'][(k // 3) % 2]})
    # an 8-bit index table in the first probe, merged indices beyond 255 (symbolic tables, concrete channels)
    out.append({'P': 2, 'spikes': [1, 1], 'nch': [256, 3], 'ntpl': [1, 2], 'nsw': 1, 'sym': 'tables', 'sym_tables': True,
                'table_dtypes': ['uint8', 'int32'], 'map_dtypes': ['int32', 'int32'], 'tpl_dtypes': ['float32', 'float32']})
    return out


def run_config(cfg, e):
    pkg = env.make_pkg(record=e.functions)
    e.concretize_shapes = True

    def fn():
        vfs.reset()
        probes = mergelib.build(e, cfg)
        e.case_builder = lambda ev: mergelib.case_of(ev, cfg, probes)
        nlog = len(vfs.fs().log)
        try:
            run_merge(pkg, probes)
        except Exception as ex:
            e.fail('exception %r' % (ex,))
        fs = vfs.fs()
        for op in fs.log[nlog:]:
            if any(str(x).startswith('/in/') for x in op[1:]):
                e.fail('input directory modified: %s' % (op,))

        def out(name, must=True):
            ent = fs.get('/out/' + name)
            if ent is None:
                if must:
                    e.fail('output file %s missing' % name)
                return None
            if ent.corrupt:
                e.fail('output file %s is not a loadable npy file' % name)
            return snp.asarray(ent.arr)
        P = cfg['P']
        Coff, Toff = [0], [0]
        for pr in probes:
            Coff.append(Coff[-1] + pr.C)
            Toff.append(Toff[-1] + pr.T)
        NC, NT, nsw = Coff[-1], Toff[-1], cfg['nsw']
        cp = out('channel_probe.npy')
        pos = out('channel_positions.npy')
        cmap = out('channel_map.npy')
        e.prove(cp.shape == (NC,) and pos.shape == (NC, 2) and cmap.shape == (NC,), 'channel array shapes')
        obl = []
        dx = []
        for p, pr in enumerate(probes):
            d = pos.a[Coff[p], 0] - pr.pos[0][0]
            dx.append(d)
            for c in range(pr.C):
                g = Coff[p] + c
                obl.append((cp.a[g] == p, 'channel %d not labelled with probe %d' % (g, p)))
                obl.append((pos.a[g, 0] == pr.pos[c][0] + d, 'x of channel %d is not a translation of its probe geometry' % g))
                obl.append((pos.a[g, 1] == pr.pos[c][1], 'y of channel %d changed' % g))
        # known finding C12-zero-width-probe: a probe whose channels all share one x (zero x extent)
        # followed by a probe that has a channel at x == 0 is translated by 0 and overlaps
        kn = []
        for p in range(1, P):
            prev, cur = probes[p - 1], probes[p]
            zero_w = sand(*[xy[0] == prev.pos[0][0] for xy in prev.pos])
            at0 = sor(*[xy[0] == 0 for xy in cur.pos])
            kn.append(sand(zero_w, at0))
        if kn:
            e.note_known(sor(*kn), 'probes overlap along x (known finding C12-zero-width-probe)')
        # different probes are kept apart along x: every channel of probe p is right of every channel of p-1
        for p in range(1, P):
            for c in range(probes[p].C):
                for c2 in range(probes[p - 1].C):
                    obl.append((pos.a[Coff[p] + c, 0] > pos.a[Coff[p - 1] + c2, 0],
                                'probes %d and %d overlap along x' % (p - 1, p)))
        e.prove_all(obl)
        tpl = out('templates.npy')
        e.prove(tpl.shape == (NT, nsw, NC), 'templates shape %s' % (tpl.shape,))
        obl = []
        for p, pr in enumerate(probes):
            for t in range(pr.T):
                for s in range(nsw):
                    for g in range(NC):
                        got = tpl.a[Toff[p] + t, s, g]
                        if Coff[p] <= g < Coff[p + 1]:
                            want = pr.tv[(t * nsw + s) * pr.C + (g - Coff[p])]
                            obl.append((got == want, 'template %d of probe %d is not on its probe channel block' % (t, p)))
                        else:
                            obl.append((got == 0, 'template %d of probe %d is non-zero on channels of another probe' % (t, p)))
        e.prove_all(obl)
        pci, tfi = out('pc_feature_ind.npy'), out('template_feature_ind.npy')
        e.prove(pci.shape == (NT, 2) and tfi.shape == (NT, 2), 'index table shapes')
        obl = []
        for p, pr in enumerate(probes):
            for t in range(pr.T):
                for k in range(2):
                    obl.append((pci.a[Toff[p] + t, k] == pr.pci[t * 2 + k] + Coff[p],
                                'pc_feature_ind of probe %d not shifted into the merged channel numbering' % p))
                    obl.append((tfi.a[Toff[p] + t, k] == pr.tfi[t * 2 + k] + Toff[p],
                                'template_feature_ind of probe %d not shifted into the merged template numbering' % p))
        e.prove_all(obl)
        for fn, offs in (('similar_templates.npy', Toff), ('whitening_mat.npy', Coff), ('whitening_mat_inv.npy', Coff)):
            allp = all(bool(pr.mats[fn][2]) if not isinstance(pr.mats[fn][2], bool) else pr.mats[fn][2]
                       for pr in probes)
            m = out(fn, must=allp)
            if not allp:
                e.prove(m is None, '%s written although a probe has no such matrix' % fn)
                continue
            N = offs[-1]
            e.prove(m.shape == (N, N), '%s shape' % fn)
            obl = []
            for i in range(N):
                for j in range(N):
                    want = 0
                    for p, pr in enumerate(probes):
                        if offs[p] <= i < offs[p + 1] and offs[p] <= j < offs[p + 1]:
                            size = pr.mats[fn][1]
                            want = pr.mats[fn][0][(i - offs[p]) * size + (j - offs[p])]
                    obl.append((m.a[i, j] == want, '%s is not block-diagonal with the per-probe blocks' % fn))
            e.prove_all(obl)
        ptxt = fs.get('/out/params.py')
        e.prove(ptxt is not None and 'n_channels_dat = %d' % sum(pr.ncd for pr in probes) in ptxt.text
                and 'sample_rate = 30000.0' in ptxt.text, 'merged params.py')
        e.witness()

    e.explore(fn)


def replay(case):
    cfg = case['cfg']
    rp = mergelib.RealProbes(case)
    try:
        from phylib.io import merge as mg
        from phylib.utils._misc import read_python
        before = rp.snapshot()
        old = mg.load_model
        mg.load_model = lambda p: None
        try:
            mg.Merger(rp.subdirs, rp.out).merge()
        except Exception as ex:
            return 'merge raised %r (channel counts %s, template counts %s, table dtypes %s)' % (
                ex, cfg['nch'], cfg['ntpl'], cfg.get('table_dtypes'))
        finally:
            mg.load_model = old
        if rp.snapshot() != before:
            return 'input directories changed'
        P, nsw = cfg['P'], cfg['nsw']
        pr = case['probes']
        Coff = np.concatenate([[0], np.cumsum(cfg['nch'])]).tolist()
        Toff = np.concatenate([[0], np.cumsum(cfg['ntpl'])]).tolist()
        L = lambda n: np.load(os.path.join(rp.out, n))
        cp, pos = L('channel_probe.npy'), L('channel_positions.npy')
        if [int(v) for v in cp] != [p for p in range(P) for _ in range(cfg['nch'][p])]:
            return 'channel_probe %s' % cp.tolist()
        prev_max = None
        for p in range(P):
            inp = np.array(pr[p]['pos'], dtype=float).reshape(-1, 2)
            blk = pos[Coff[p]:Coff[p + 1]]
            d = blk[0, 0] - inp[0, 0]
            if not np.allclose(blk[:, 1], inp[:, 1]) or not np.allclose(blk[:, 0], inp[:, 0] + d):
                return 'positions of probe %d are not an x-translation of its geometry' % p
            if prev_max is not None and not blk[:, 0].min() > prev_max:
                return 'probes %d and %d are not kept apart along x (x of probe %d: %s, max x before: %s)' % (
                    p - 1, p, p, blk[:, 0].tolist(), prev_max)
            prev_max = blk[:, 0].max()
        try:
            tpl = L('templates.npy')
        except Exception as ex:
            return 'templates.npy does not load: %r' % (ex,)
        want = np.zeros((Toff[-1], nsw, Coff[-1]))
        for p in range(P):
            want[Toff[p]:Toff[p + 1], :, Coff[p]:Coff[p + 1]] = np.array(pr[p]['tv'], dtype=float).reshape(
                cfg['ntpl'][p], nsw, cfg['nch'][p])
        if tpl.shape != want.shape or not np.allclose(tpl, want):
            return 'templates.npy is not block-structured: got %s expected %s (channel counts %s)' % (
                tpl.tolist(), want.tolist(), cfg['nch'])
        pci, tfi = L('pc_feature_ind.npy'), L('template_feature_ind.npy')
        wp = np.concatenate([np.array(pr[p]['pci']).reshape(-1, 2) + Coff[p] for p in range(P)])
        wt = np.concatenate([np.array(pr[p]['tfi']).reshape(-1, 2) + Toff[p] for p in range(P)])
        if not np.array_equal(pci, wp):
            return 'pc_feature_ind %s, expected %s (channel offsets %s)' % (pci.tolist(), wp.tolist(), Coff)
        if not np.array_equal(tfi, wt):
            return 'template_feature_ind %s, expected %s (template offsets %s)' % (tfi.tolist(), wt.tolist(), Toff)
        from scipy.linalg import block_diag
        for fn in ('similar_templates.npy', 'whitening_mat.npy', 'whitening_mat_inv.npy'):
            if not all(pr[p]['mats'][fn][2] for p in range(P)):
                if os.path.exists(os.path.join(rp.out, fn)):
                    return '%s written although a probe has no such matrix' % fn
            else:
                w = block_diag(*[np.array(pr[p]['mats'][fn][0]).reshape(pr[p]['mats'][fn][1], -1) for p in range(P)])
                if not np.allclose(L(fn), w):
                    return '%s not block diagonal' % fn
        params = read_python(os.path.join(rp.out, 'params.py'))
        if params['n_channels_dat'] != sum(cfg['nch'][p] + p for p in range(P)) or params['sample_rate'] != 30000.0:
            return 'params %s' % params
        return None
    finally:
        rp.close()


def classify(case, failure):
    if 'apart along x' in str(failure) or 'overlap along x' in str(failure):
        pr = case['probes']
        for p in range(1, len(pr)):
            xs_prev = [xy[0] for xy in pr[p - 1]['pos']]
            xs = [xy[0] for xy in pr[p]['pos']]
            if max(xs_prev) == min(xs_prev) and min(xs) == 0:
                return 'C12-zero-width-probe'
    return None


if __name__ == '__main__':
    sys.exit(harness.main('checks.c12'))
