"""C18 JSON, TSV/CSV and parameter-file serialisation round-trips values and types."""
import sys
import os
import re
import json
import shutil
import subprocess
import tempfile
import types
import itertools
import z3
import numpy as np

from symx import core, env, lam, harness, vfs, symnp as snp
from symx.core import SymInt, SymReal, SymBool, sand, sor, snot, implies, ite

PID = 'C18'
FUNCTIONS = ['phylib/utils/_misc.py:' + f for f in (
    '_CustomEncoder.default', '_json_custom_hook', '_intify_keys', '_stringify_keys', 'load_json', 'save_json',
    'read_tsv', 'write_tsv', '_try_make_number', '_pretty_floats', '_read_tsv_simple', '_write_tsv_simple',
    'read_python', 'write_python')]
BOUNDS = {
    'quick': {'array_rank': '0..3', 'array_dims': '1-D length unbounded (symbolic), higher ranks small concrete',
              'tsv_rows': '<= 2', 'tsv_fields': 3, 'key_dict_size': '<= 2 (CrossHair, 30 s per condition)',
              'unbounded': ['1-D array length', 'integer cells and ids of tables', 'int keys (CrossHair)']},
    'thorough': {'array_rank': '0..3', 'array_dims': '1-D length unbounded (symbolic)', 'tsv_rows': '<= 3',
                 'tsv_fields': 3, 'key_dict_size': '<= 3 (CrossHair, 120 s per condition)',
                 'unbounded': ['1-D array length', 'integer cells and ids of tables', 'int keys (CrossHair)']},
}
ASSUMPTIONS = [
    'json / csv are the real modules; base64 is a bijection stub (the encoded payload is the element sequence with '
    'its dtype); files live on the virtual file system',
    'short arrays (the clear-text path) hold concrete values, their *length* is symbolic; long arrays hold '
    'uninterpreted values',
    'string keys / string cells are not numeric literals (JSON and TSV cannot distinguish "7" from 7); string '
    'cells come from a fixed set containing the other delimiter, quotes and blanks',
    'float cells are concrete and compared to the written precision; integer cells are symbolic (placeholders '
    'decoded by int())',
    'parameter files: values from a fixed list of ints, floats, bools, lists and strings without quotes or '
    'backslashes (read_python goes through exec, which symbolic execution does not enter)',
    'memory layout (C/F/non-contiguous) exists only on the real side: every array case is replayed in the three '
    'layouts against real NumPy',
    'key intification is decided by CrossHair on the real _intify_keys/_stringify_keys (symbolic str/int keys)',
    'every string of the tricky-string set is used in both table kinds',
    'round 8: arrays of non-native byte order (>i4, >f8, >u2) through the base64 branch; reading a byte buffer in the opposite byte '
    'order yields unconstrained elements in the model (every resulting claim is confirmed by the replay on real NumPy)',
]
STUBS = ['base64 (bijection)', 'virtual file system']
OUTSIDE = ['QByteArray', 'pickle', 'float formatting of symbolic reals', 'exec of symbolic text']
WITNESS_CAP = {'quick': 40, 'thorough': 80}
STRS = ['good', 'mua, maybe', 'a\tb', 'say "hi"', ' lead', 'x,y\t"z"']
DTYPES = ['float64', 'float32', 'int16', 'int64', 'uint8', 'bool', 'uint64']
SWAPPED = ['>i4', '>f8', '>u2']     # non-native byte order (round 8)


def configs(tier):
    quick = tier == 'quick'
    out = []
    for dt in DTYPES + SWAPPED:
        out.append({'kind': 'json_1d', 'dtype': dt})
    for dt in SWAPPED:
        out.append({'kind': 'json_nd', 'rank': 2, 'dtype': dt})
    for rank in (0, 2, 3):
        for dt in (DTYPES[:4] if quick else DTYPES):
            out.append({'kind': 'json_nd', 'rank': rank, 'dtype': dt})
    out.append({'kind': 'json_values'})
    for delim in ('tsv', 'csv'):
        for nrows in ((1, 2) if quick else (1, 2, 3)):
            for first in (None, 'cluster_id', 'score'):
                out.append({'kind': 'tsv', 'ext': delim, 'nrows': nrows, 'first': first})
    for ext in ('tsv', 'csv'):
        for n in (0, 1, 2):
            out.append({'kind': 'tsv_simple', 'ext': ext, 'n': n})
    out.append({'kind': 'python'})
    out.append({'kind': 'crosshair'})
    return out


class _B64(object):
    """bijection stub for base64: tokens are kept in a table and named in the JSON text"""
    table = {}

    class _Enc(object):
        def __init__(self, s):
            self.s = s

        def decode(self, *_):
            return self.s

    @classmethod
    def b64encode(cls, tok):
        k = 'B64:%d' % len(cls.table)
        cls.table[k] = tok
        return cls._Enc(k)

    @classmethod
    def b64decode(cls, s):
        return cls.table[s]


def _misc(pkg):
    m = pkg.load('phylib.utils._misc')
    m.base64 = _B64
    return m


PY_VALUES = [{'n_channels_dat': 385, 'sample_rate': 30000.0, 'dtype': 'int16', 'offset': 0, 'hp_filtered': False,
              'dat_path': ['a.bin', 'dir/b.bin']},
             {'x': -3, 'y': 2.5e-06, 'name': 'probe 1', 'flag': True, 'empty': [], 'nested': [1, [2, 3]]},
             {'dat_path': 'data.bin', 'n': 0}]


def run_config(cfg, e):
    kind = cfg['kind']
    if kind == 'crosshair':
        return run_crosshair(cfg, e)
    pkg = env.make_pkg(record=e.functions)
    misc = _misc(pkg)
    e.concretize_shapes = False

    def fn():
        vfs.reset()
        _B64.table = {}
        vfs.fs().mkdir('/j')
        path = vfs.VPath('/j/f.json')
        if kind == 'json_1d':
            dt = np.dtype(cfg['dtype'])
            # the array length decides clear text vs base64; it is a solver-enumerated choice (the JSON
            # encoder needs a concrete shape), the contents of long arrays are symbolic
            n = e.choice('n', [0, 1, 5, 9, 10, 11, 12, 33])
            vals = [e.int('v%d' % i, 0, 100) for i in range(n)] if n > 10 else []
            for i, v in enumerate(vals):
                e.prefer.append(v == (7 * i + 3) % 100)

            def elem(idx):
                i = idx[0]
                v = lam._select(vals, i)
                if dt.kind == 'b':
                    return v > 50
                if dt.kind == 'f':
                    return SymReal(z3.ToReal(core.term_of(v)))
                return v
            short = n <= 10
            e.case_builder = lambda ev: {'kind': kind, 'dtype': dt.str, 'n': n, 'vals': ev(vals)}
            if short:
                nn = int(n)
                arr = snp.asarray(np.array([(3 * i) % 7 for i in range(nn)]).astype(dt))
            else:
                arr = snp.ndarray(snp._fromlist([snp._strip(elem((i,))) for i in range(n)], (n,)), dt)
            try:
                misc.save_json(path, {'a': arr, 3: 1})
                back = misc.load_json(path)
            except Exception as ex:
                e.fail('exception %r' % (ex,))
            e.prove(sorted(back.keys(), key=str) == [3, 'a'], 'keys %r' % (list(back.keys()),))
            got = back['a']
            if short:
                want = [(3 * i) % 7 for i in range(nn)]
                if dt.kind == 'b':
                    want = [bool(v) for v in want]
                e.prove(isinstance(got, list) and got == want and all(type(g) is type(w) or dt.kind == 'f'
                                                                      for g, w in zip(got, np.array(want).astype(dt).tolist())),
                        'short array came back as %r, expected the list %r' % (got, want))
            else:
                e.prove(isinstance(got, snp.ndarray), 'long array did not come back as an array')
                e.prove(got.dtype == dt, 'dtype %s, expected %s' % (got.dtype, dt))
                e.prove(got.ndim == 1 and got.shape[0] == n, 'shape')
                k = e.int('k')
                e.prove(implies(sand(k >= 0, k < n), lam.elem(got, (k,)) == elem((k,))), 'values')
            e.witness()
        elif kind == 'json_nd':
            dt = np.dtype(cfg['dtype'])
            rank = cfg['rank']
            shape = {0: (), 2: (2, 3), 3: (2, 1, 2)}[rank]
            size = int(np.prod(shape)) if shape else 1
            vals = [e.int('v%d' % i, 0, 100) for i in range(size)]
            for i, v in enumerate(vals):
                e.prefer.append(v == (7 * i + 3) % 100)      # distinct values: layout mix-ups show in replays
            if dt.kind == 'f':
                raw = [SymReal(z3.ToReal(v.term)) for v in vals]
            elif dt.kind == 'b':
                raw = [v > 50 for v in vals]
            else:
                raw = vals
            arr = snp.ndarray(snp._fromlist(raw, shape), dt)
            e.case_builder = lambda ev: {'kind': kind, 'dtype': dt.str, 'shape': list(shape), 'vals': ev(vals)}
            try:
                misc.save_json(path, {'arr': arr, 'n': 2})
                back = misc.load_json(path)
            except Exception as ex:
                e.fail('exception %r' % (ex,))
            got = back['arr']
            e.prove(isinstance(got, snp.ndarray) and got.dtype == dt and tuple(got.shape) == shape,
                    'array came back as %r' % (got,))
            e.prove_all([(g == w, 'value') for g, w in zip(got.a.ravel().tolist(), raw)])
            e.prove(back['n'] == 2, 'scalar')
            e.witness()
        elif kind == 'json_values':
            d = {'s': 'text', 'none': None, 'b': True, 'i': -7, 'f': 0.125, 'l': [1, 'two', None, [3.5]],
                 'd': {'x': 1, 'y': [2]}, 12: 'int key', 'np': np.float64(2.5), 'npi': np.int32(4)}
            e.case_builder = lambda ev: {'kind': kind}
            try:
                misc.save_json(path, d)
                back = misc.load_json(path)
            except Exception as ex:
                e.fail('exception %r' % (ex,))
            want = dict(d, np=2.5, npi=4)
            e.prove(back == want and all(type(back[k]) is type(want[k]) for k in want), 'values %r' % (back,))
            e.prove(misc.load_json(_empty(path)) == {}, 'empty file')
            e.witness()
        elif kind == 'tsv':
            nrows, ext, first = cfg['nrows'], cfg['ext'], cfg['first']
            p = vfs.VPath('/j/t.' + ext)
            rows = []
            desc = []
            for r in range(nrows):
                row = {}
                cid = e.int('id%d' % r)
                e.prefer.append(sand(cid >= 0, cid <= 9))
                shape = e.choice('shape%d' % r, ['full', 'nolabel', 'noscore', 'empty', 'idonly'])
                si = e.choice('str%d' % r, list(range(len(STRS)))) if shape in ('full', 'noscore') else 0
                if shape != 'empty':
                    row['cluster_id'] = cid
                if shape in ('full', 'noscore'):
                    row['label'] = STRS[si]
                if shape in ('full', 'nolabel'):
                    row['score'] = [-2.0, 1.23456789, 0.5][r % 3]
                rows.append(row)
                desc.append([shape, si])
            e.case_builder = lambda ev: {'kind': kind, 'ext': ext, 'first': first, 'rows': [
                [d_[0], d_[1], ev(rows[i].get('cluster_id', 0))] for i, d_ in enumerate(desc)]}
            try:
                misc.write_tsv(p, rows, first_field=first)
                back = misc.read_tsv(p)
                text = vfs.fs().get(p).text
            except Exception as ex:
                e.fail('exception %r' % (ex,))
            if all(not r for r in rows):
                e.witness()
                return
            nf = len(set().union(*rows))
            if nf < 2:
                e.witness()
                return     # the property speaks of tables with two or more columns
            e.prove(len(back) == len(rows), 'row count %d, expected %d' % (len(back), len(rows)))
            obl = []
            for got, want in zip(back, rows):
                obl.append((sorted(got.keys()) == sorted(want.keys()), 'fields %s, expected %s' % (
                    sorted(got.keys()), sorted(want.keys()))))
                for k, v in want.items():
                    g = got.get(k)
                    if isinstance(v, float):
                        obl.append((isinstance(g, float) and abs(g - v) <= 5e-5, 'float cell %r read back as %r' % (v, g)))
                    elif isinstance(v, str):
                        obl.append((g == v and isinstance(g, str), 'string cell %r read back as %r' % (v, g)))
                    else:
                        obl.append((isinstance(g, (int, core.SymInt)), 'integer cell read back as %s' % type(g).__name__))
                        obl.append((g == v if isinstance(g, (int, core.SymInt)) else False, 'integer cell value'))
            e.prove_all(obl)
            header = text.split('\r\n')[0].split('\t' if ext == 'tsv' else ',')
            if first in set().union(*rows):
                e.prove(header[0] == first, 'first column is %r, requested %r' % (header[0], first))
            e.prove(header[1 if first in header else 0:] == sorted(header[1 if first in header else 0:]), 'columns not sorted')
            e.witness()
        elif kind == 'tsv_simple':
            n, ext = cfg['n'], cfg['ext']
            p = vfs.VPath('/j/cluster_x.' + ext)
            ids = [e.int('id%d' % i, 0) for i in range(n)]
            for a, b in itertools.combinations(ids, 2):
                e.assume(a != b)
            vals = [e.int('v0'), STRS[e.choice('str', list(range(len(STRS))))]][:n]
            data = dict(zip(ids, vals))
            e.case_builder = lambda ev: {'kind': kind, 'ext': ext, 'ids': ev(ids), 'vals': [ev(v) if isinstance(v, core.Sym) else v for v in vals]}
            try:
                misc._write_tsv_simple(p, 'x', data)
                field, back = misc._read_tsv_simple(p)
            except Exception as ex:
                e.fail('exception %r' % (ex,))
            e.prove(field == 'x' and len(back) == n, 'field/row count')
            obl = []
            for k, v in data.items():
                hits = [sand(gk == k, (gv == v) if not isinstance(v, str) else SymBool(gv == v)) for gk, gv in back.items()]
                obl.append((sor(*hits) if hits else False, 'row not found'))
            e.prove_all(obl)
            e.witness()
        elif kind == 'python':
            e.case_builder = lambda ev: {'kind': kind}
            for i, d in enumerate(PY_VALUES):
                p = vfs.VPath('/j/params%d.py' % i)
                try:
                    misc.write_python(p, d)
                    back = misc.read_python(p)
                except Exception as ex:
                    e.fail('exception %r for %r' % (ex, d))
                e.prove(back == d and all(type(back[k]) is type(d[k]) for k in d), 'params %r read back as %r' % (d, back))
            e.witness()

    e.explore(fn)


def _empty(path):
    p = vfs.VPath(str(path) + '.empty')
    p.write_text('')
    return p


# ------------------------------------------------------------------------------------------
# CrossHair part: key intification on the real functions
# ------------------------------------------------------------------------------------------

CH_SRC = '''
import sys
sys.path.insert(0, %(repo)r)
from typing import Dict, Union
from phylib.utils._misc import _intify_keys, _stringify_keys


def _is_int_literal(k) -> bool:
    s = k[1:] if k[:1] == '-' else k
    return len(s) > 0 and all(c in '0123456789' for c in s)


def roundtrip_keys(d: Dict[Union[int, str], int]) -> Dict[Union[int, str], int]:
    """
    pre: len(d) <= %(size)d
    pre: all(not isinstance(k, bool) for k in d)
    pre: all(len(k) <= 3 and k.isascii() and not _is_int_literal(k) for k in d if isinstance(k, str))
    pre: all(-1000 <= k <= 1000 for k in d if isinstance(k, int))
    post: _ == d
    """
    return _intify_keys(_stringify_keys(d))


def reach_twin(d: Dict[Union[int, str], int]) -> int:
    """
    pre: len(d) <= %(size)d
    pre: all(not isinstance(k, bool) for k in d)
    pre: all(len(k) <= 3 and k.isascii() and not _is_int_literal(k) for k in d if isinstance(k, str))
    post: _ < 2
    """
    return len(_intify_keys(_stringify_keys(d)))
'''


def run_crosshair(cfg, e):
    """CrossHair searches a counterexample of the key round-trip over symbolic int/str keys."""
    tier = getattr(e, 'tier', 'quick')
    d = tempfile.mkdtemp(prefix='phyv_ch_')
    try:
        src = os.path.join(d, 'ch_keys.py')
        with open(src, 'w') as f:
            f.write(CH_SRC % {'repo': os.environ.get('PHYLIB_REPO', '/repo'), 'size': 2 if tier == 'quick' else 3})
        to = 30 if tier == 'quick' else 120
        cmd = [sys.executable, '-m', 'crosshair', 'check', '--report_all', '--per_condition_timeout', str(to),
               '--analysis_kind', 'PEP316', src]
        r = subprocess.run(cmd, capture_output=True, text=True, timeout=to * 6 + 60)
        out = r.stdout + r.stderr
        e.functions.update(['phylib/utils/_misc.py:_intify_keys', 'phylib/utils/_misc.py:_stringify_keys'])
        e.stats.inc('obligations', 2)
        e.stats.inc('paths')
        e.stats.inc('paths_completed')
        e.stats.inc('paths_nontrivial')
        lines = [l for l in out.splitlines() if 'ch_keys.py' in l]
        main = [l for l in lines if 'roundtrip_keys' in l or ':2' in l.split('ch_keys.py')[1][:6]]
        twin_violated = any('false when calling reach_twin' in l for l in lines)
        e.crosshair_output = out[-1500:]
        cex = [l for l in lines if 'false when calling roundtrip_keys' in l or 'when calling roundtrip_keys' in l and 'error' in l.lower()]
        if cex:
            m = re.search(r'roundtrip_keys\((\{.*?\})\)', cex[0])
            arg = m.group(1) if m else ''
            e.stats.inc('sat')
            e.cex.append({'label': 'integer/string keys do not round-trip', 'case': {'kind': 'crosshair', 'arg': arg,
                                                                                  'line': cex[0][-300:]}})
            return
        if not twin_violated:
            raise core.Inconclusive('CrossHair reachability twin was not violated (vacuous precondition?): ' + out[-600:])
        confirmed = any('Confirmed over all paths' in l for l in lines if 'ch_keys.py:' in l)
        e.stats.inc('discharged', 2 if confirmed else 1)
        e.witnesses.append({'kind': 'crosshair', 'arg': "d={1: 2, 'ab': 3}", 'status': 'confirmed' if confirmed else 'not refuted within budget'})
        if not confirmed and any('Not confirmed' in l or 'Unable to meet' in l for l in lines if 'roundtrip' in l):
            # "not confirmed" = no counterexample within the budget: inconclusive for a proof, but the
            # bounded search itself completed; recorded in evidence, not counted as discharged
            e.stats.inc('crosshair_not_confirmed')
    finally:
        shutil.rmtree(d, ignore_errors=True)


# ------------------------------------------------------------------------------------------

def replay(case):
    from symx.loader import real_phylib
    real_phylib()
    from phylib.utils import _misc as misc
    kind = case['kind']
    d = tempfile.mkdtemp(prefix='phyv_ser_')
    try:
        if kind == 'crosshair':
            arg = case.get('arg', '')
            if 'status' in case:
                dd = {1: 2, 'ab': 3}
            else:
                try:
                    dd = eval(arg.split('=', 1)[1]) if arg.startswith('d=') else eval(arg)
                except Exception:
                    return None
            back = misc._intify_keys(misc._stringify_keys(dd))
            return None if back == dd else '_intify_keys(_stringify_keys(%r)) = %r' % (dd, back)
        if kind == 'json_1d':
            n, dt = case['n'], np.dtype(case['dtype'])
            if n > 10 ** 6:
                raise core.TooLarge('n=%d' % n)
            vals = case.get('vals') or []
            if n > 10:
                base = (np.array(vals) > 50 if dt.kind == 'b' else np.array(vals)).astype(dt)
            else:
                base = ((np.arange(n) * 3) % 7).astype(dt)
            for variant in ('c', 'strided'):
                arr = base if variant == 'c' else np.repeat(base, 2)[::2]
                p = os.path.join(d, 'f.json')
                misc.save_json(p, {'a': arr, 3: 1})
                back = misc.load_json(p)
                if sorted(back.keys(), key=str) != [3, 'a']:
                    return 'keys %r' % list(back.keys())
                got = back['a']
                if n <= 10:
                    if not isinstance(got, list) or got != base.tolist():
                        return 'short array %r came back as %r' % (base.tolist(), got)
                elif not isinstance(got, np.ndarray) or got.dtype != dt or not np.array_equal(got, base):
                    return 'array of %d %s came back as %r' % (n, dt, got)
            return None
        if kind == 'json_nd':
            dt, shape = np.dtype(case['dtype']), tuple(case['shape'])
            vals = case['vals']
            base = (np.array(vals) > 50 if dt.kind == 'b' else np.array(vals)).astype(dt).reshape(shape)
            layouts = [base]
            if base.ndim >= 2:
                layouts += [np.asfortranarray(base), np.ascontiguousarray(base.T).T,
                            np.repeat(base, 2, axis=-1)[..., ::2]]
            for arr in layouts:
                p = os.path.join(d, 'f.json')
                misc.save_json(p, {'arr': arr, 'n': 2})
                back = misc.load_json(p)
                got = back['arr']
                if not isinstance(got, np.ndarray) or got.dtype != dt or got.shape != shape or not np.array_equal(got, base):
                    return 'array %s (flags C=%s F=%s) came back as %r' % (base.tolist(), arr.flags.c_contiguous,
                                                                         arr.flags.f_contiguous, got)
            return None
        if kind == 'json_values':
            dd = {'s': 'text', 'none': None, 'b': True, 'i': -7, 'f': 0.125, 'l': [1, 'two', None, [3.5]],
                  'd': {'x': 1, 'y': [2]}, 12: 'int key', 'np': np.float64(2.5), 'npi': np.int32(4)}
            p = os.path.join(d, 'f.json')
            misc.save_json(p, dd)
            back = misc.load_json(p)
            want = dict(dd, np=2.5, npi=4)
            return None if back == want and all(type(back[k]) is type(want[k]) for k in want) else 'values %r' % (back,)
        if kind == 'tsv':
            rows = []
            for r, (shape, si, cid) in enumerate(case['rows']):
                row = {}
                if shape != 'empty':
                    row['cluster_id'] = cid
                if shape in ('full', 'noscore'):
                    row['label'] = STRS[si]
                if shape in ('full', 'nolabel'):
                    row['score'] = [-2.0, 1.23456789, 0.5][r % 3]
                rows.append(row)
            p = os.path.join(d, 't.' + case['ext'])
            misc.write_tsv(p, rows, first_field=case['first'])
            back = misc.read_tsv(p)
            if all(not r for r in rows) or len(set().union(*rows)) < 2:
                return None
            if len(back) != len(rows):
                return '%d rows read back, %d written (%r)' % (len(back), len(rows), rows)
            for got, want in zip(back, rows):
                if sorted(got) != sorted(want):
                    return 'row %r read back as %r' % (want, got)
                for k, v in want.items():
                    g = got[k]
                    if isinstance(v, float):
                        if not isinstance(g, float) or abs(g - v) > 5e-5:
                            return 'float cell %r read back as %r' % (v, g)
                    elif g != v or type(g) is not type(v):
                        return 'cell %r read back as %r' % (v, g)
            header = open(p).read().split('\n')[0].rstrip('\r').split('\t' if case['ext'] == 'tsv' else ',')
            if case['first'] in set().union(*rows) and header[0] != case['first']:
                return 'first column %r' % header[0]
            return None
        if kind == 'tsv_simple':
            data = dict(zip(case['ids'], case['vals']))
            p = os.path.join(d, 'cluster_x.' + case['ext'])
            misc._write_tsv_simple(p, 'x', data)
            field, back = misc._read_tsv_simple(p)
            return None if field == 'x' and back == data else '_read_tsv_simple gives %r, written %r' % (back, data)
        if kind == 'python':
            for i, dd in enumerate(PY_VALUES):
                p = os.path.join(d, 'p%d.py' % i)
                misc.write_python(p, dd)
                back = misc.read_python(p)
                if back != dd:
                    return 'params %r read back as %r' % (dd, back)
            return None
        raise ValueError(kind)
    except core.TooLarge:
        raise
    except Exception as ex:
        return 'raised %r' % (ex,)
    finally:
        shutil.rmtree(d, ignore_errors=True)


def classify(case, failure):
    return None


if __name__ == '__main__':
    sys.exit(harness.main('checks.c18'))
