"""Direct construction of TemplateModel objects (symbolic and real) without file I/O
(C05, C08, C09)."""
import fractions
import z3
import numpy as np

from symx import core, symnp as snp
from symx.core import SymReal, SymInt, sand, sor, ite

# probe geometries: (positions, shanks)
GEOMS = {
    'line': lambda nc: ([[0.0, 20.0 * i] for i in range(nc)], [0] * nc),
    'zigzag': lambda nc: ([[(i % 2) * 16.0, 10.0 * i] for i in range(nc)], [0] * nc),
    'twoshank': lambda nc: ([[200.0 * (i % 2), 20.0 * (i // 2)] for i in range(nc)], [i % 2 for i in range(nc)]),
    'closeshanks': lambda nc: ([[10.0 * (i % 2), 20.0 * (i // 2)] for i in range(nc)], [i % 2 for i in range(nc)]),
    'square': lambda nc: ([[20.0 * (i % 2), 20.0 * (i // 2)] for i in range(nc)], [0] * nc),   # distance ties
    # positions stored as unsigned integers (differences to channels left of / below the peak wrap around)
    'zigzag_u32': lambda nc: ([[(i % 2) * 16.0, 10.0 * i] for i in range(nc)], [0] * nc),
}
POS_DTYPE = {'zigzag_u32': np.uint32}

# inverse whitening matrices by name -> function nc -> list of lists (exact small rationals)
def _wmi(name, nc):
    if name == 'I' or name == 'absent':
        return np.eye(nc)
    if name == 'diag':
        return np.diag([2.0 if i == 0 else (0.5 if i == 1 else 1.0) for i in range(nc)])
    if name == 'dense':
        m = np.eye(nc)
        for i in range(nc):
            for j in range(nc):
                if i != j:
                    m[i, j] = 0.5 if (i + j) % 2 else -0.25
        return m
    if name == 'nonsym':
        m = np.eye(nc)
        for i in range(nc):
            for j in range(i + 1, nc):
                m[i, j] = 0.5
        return m
    raise ValueError(name)


def wmi_matrix(name, nc):
    return _wmi(name, nc)


def sym_reals(e, name, shape, integral_pref=True):
    a = snp._obj(shape)
    flat = []
    for idx in np.ndindex(shape):
        v = e.real('%s%s' % (name, '_'.join(map(str, idx))))
        a[idx] = v
        flat.append(v)
    for v in flat:
        # small integral values make the float32/float64 replay exact
        e.prefer.append(sor(*[v == SymReal(z3.RealVal(k)) for k in (-2, -1, 0, 1, 2, 3)]))
    return snp.ndarray(a, 'float64'), flat


def unwhiten_terms(tw, wmi, scaling=1.0):
    """U[t][c] = sum_k tw[t][k] * wmi[k][c] (exact), tw: nsw x nc nested list of Sym/num"""
    nsw, nc = len(tw), len(tw[0])
    U = []
    for t in range(nsw):
        row = []
        for c in range(nc):
            r = SymReal(0)
            for k in range(nc):
                w = float(wmi[k][c])
                if w != 0:
                    r = r + tw[t][k] * w
            row.append(r * scaling if scaling != 1.0 else r)
        U.append(row)
    return U


def ptp_terms(U):
    """peak-to-peak amplitude per channel (ite folds)"""
    nsw, nc = len(U), len(U[0])
    out = []
    for c in range(nc):
        mx = mn = U[0][c]
        for t in range(1, nsw):
            mx = ite(U[t][c] > mx, U[t][c], mx)
            mn = ite(U[t][c] < mn, U[t][c], mn)
        out.append(mx - mn)
    return out


def build_sym_model(pkg, nc, geom, wmi_name, n_closest, threshold=0, sparse_templates=None, **attrs):
    mod = pkg.load('phylib.io.model')
    Bunch = pkg.load('phylib.utils._types').Bunch
    m = object.__new__(mod.TemplateModel)
    pos, shanks = GEOMS[geom](nc)
    m.channel_positions = snp.asarray(np.array(pos, dtype=POS_DTYPE.get(geom, np.float64)))
    m.channel_shanks = snp.asarray(np.array(shanks, dtype=np.int32))
    m.n_channels = nc
    m.wmi = snp.asarray(_wmi(wmi_name, nc))
    m.wm = snp.asarray(np.linalg.inv(_wmi(wmi_name, nc)))
    m.n_closest_channels = n_closest
    m.amplitude_threshold = threshold
    m.sparse_templates = sparse_templates
    for k, v in attrs.items():
        setattr(m, k, v)
    return m, Bunch


def build_real_model(nc, geom, wmi_name, n_closest, threshold=0, **attrs):
    from symx.loader import real_phylib
    real_phylib()
    from phylib.io import model as mod
    m = object.__new__(mod.TemplateModel)
    pos, shanks = GEOMS[geom](nc)
    m.channel_positions = np.array(pos, dtype=POS_DTYPE.get(geom, np.float64))
    m.channel_shanks = np.array(shanks, dtype=np.int32)
    m.n_channels = nc
    m.wmi = _wmi(wmi_name, nc)
    m.wm = np.linalg.inv(m.wmi)
    m.n_closest_channels = n_closest
    m.amplitude_threshold = threshold
    for k, v in attrs.items():
        setattr(m, k, v)
    return m


def closest(geom, nc, ch, n):
    """real get_closest_channels on the concrete geometry (NumPy's own argsort)"""
    pos = np.array(GEOMS[geom](nc)[0])
    d = (pos[:, 0] - pos[ch, 0]) ** 2 + (pos[:, 1] - pos[ch, 1]) ** 2
    out = np.argsort(d)
    return [int(v) for v in (out[:n] if n else out)]
