"""C16 Chunkings tile the sample axis exactly once."""
import sys
import z3
import numpy as np

from symx import core, env, lam, harness, symnp as snp
from symx.core import SymInt, sand, sor, implies, ite
from symx.loader import real_phylib

PID = 'C16'
FUNCTIONS = ['phylib/io/array.py:chunk_bounds', 'phylib/io/array.py:data_chunk',
             'phylib/io/array.py:excerpts', 'phylib/io/array.py:_excerpt_step',
             'phylib/io/array.py:get_excerpts', 'phylib/io/traces.py:_get_chunk_bounds',
             'phylib/io/traces.py:BaseEphysReader.iter_chunks',
             'phylib/io/traces.py:MtscompEphysReader.iter_chunks',
             'phylib/io/traces.py:FlatEphysReader.__init__', 'phylib/io/traces.py:_memmap_flat',
             'phylib/io/traces.py:_get_part_bounds']
BOUNDS = {
    'quick': {'chunks_yielded': 5, 'excerpts': '2..5', 'parts': '1..3', 'chunks_per_part': 3,
              'cbin_chunks': '1..4', 'unbounded': ['n_samples', 'chunk_size', 'overlap', 'excerpt_size',
                                                   'part sizes', 'batch_size', 'chunk grid values']},
    'thorough': {'chunks_yielded': 8, 'excerpts': '2..8', 'parts': '1..4', 'chunks_per_part': 4,
                 'cbin_chunks': '1..6', 'unbounded': ['n_samples', 'chunk_size', 'overlap', 'excerpt_size',
                                                      'part sizes', 'batch_size', 'chunk grid values']},
}
ASSUMPTIONS = [
    'n_samples >= 0, chunk_size >= 1, 0 <= overlap < chunk_size; excerpt_size >= 1, n_excerpts >= 2 for excerpts()',
    'unwinding: number of yielded chunks / excerpts / parts bounded as in coverage.bounds (assumed up front, '
    'exceeding it raises BoundExceeded = inconclusive)',
    'Python ints are mathematical integers (z3 Int); data contents are an uninterpreted function D(row)',
    'mtscomp.Reader replaced by a contract stub (n_batches = ceil(n_chunks / batch_size)); thread pool and '
    'decompression are no-ops',
    'forms added after seeding rounds: n_samples as a typed unsigned NumPy scalar (uint8/uint32/uint64) with every integer of the call representable in that type',
]
STUBS = ['mtscomp.Reader (contract stub)', 'tqdm (no-op)', 'Path.stat/np.memmap (virtual file system)']
OUTSIDE = ['more chunks/excerpts/parts than the unwinding bounds', 'mtscomp decoder and thread pool']
WITNESS_CAP = {'quick': 40, 'thorough': 150}


def configs(tier):
    U = 5 if tier == 'quick' else 8
    out = [{'kind': 'chunk_bounds', 'U': U}]
    for ne in range(2, U + 1):
        out.append({'kind': 'excerpts', 'ne': ne})
    # the sample count given as an unsigned NumPy scalar (e.g. an entry of a uint64 array, a header field)
    for ne, ndt in ((2, 'uint64'), (3, 'uint8'), (4, 'uint32')):
        out.append({'kind': 'excerpts', 'ne': ne, 'n_dtype': ndt})
    for ne in range(0, U + 1):
        out.append({'kind': 'get_excerpts', 'ne': ne})
    K = 3 if tier == 'quick' else 4
    P = 3 if tier == 'quick' else 4
    for k in range(1, K + 1):
        out.append({'kind': 'gcb', 'K': k, 'P': P})
    for k in range(1, (3 if tier == 'quick' else 4)):
        out.append({'kind': 'flat_reader', 'K': k, 'P': 2})
    for nch in range(1, (5 if tier == 'quick' else 7)):
        for cache in (True, False):
            out.append({'kind': 'cbin_iter', 'nch': nch, 'cache': cache})
    return out


def _D():
    return z3.Function('D', z3.IntSort(), z3.IntSort())


def _data(n):
    D = _D()
    return lam.LArr((n,), 'int64', lambda idx: SymInt(D(core.term_of(idx[0]))))


def _clip(x, n):
    x = ite(x < 0, ite(x + n < 0, 0, x + n), x)
    return ite(x > n, n, x)


def run_config(cfg, e):
    rec = e.functions
    kind = cfg['kind']

    def fn():
        pkg = env.make_pkg()
        arr = pkg.load('phylib.io.array')
        if kind == 'chunk_bounds':
            U = cfg['U']
            n = e.int('n', 0)
            cs = e.int('cs', 1)
            ov = e.int('ov', 0)
            e.assume(ov < cs)
            e.assume(n <= U * (cs - ov) + ov)
            case = lambda ev: {'kind': kind, 'n': ev(n), 'cs': ev(cs), 'ov': ev(ov)}
            e.case_builder = case
            data = _data(n)
            chunks = []
            try:
                for c in arr.chunk_bounds(n, cs, overlap=ov):
                    chunks.append(c)
                    if len(chunks) > U + 2:
                        raise core.BoundExceeded('more than %d chunks' % (U + 2))
                kept = [arr.data_chunk(data, c) for c in chunks]
                full = [arr.data_chunk(data, c, with_overlap=True) for c in chunks]
                cat = snp.concatenate(kept)
            except Exception as ex:
                e.fail('exception %r' % (ex,))
            e.prove(snp.asarray(cat).shape[0] == n, 'kept parts do not have the total length of the data')
            k = e.int('k')
            e.prove(implies(sand(k >= 0, k < n), lam.elem(cat, (k,)) == SymInt(_D()(core.term_of(k)))),
                    'kept parts do not concatenate to the data')
            for c, f in zip(chunks, full):
                s0, s1, k0, k1 = [_clip(x, n) for x in c]
                e.prove(sor(k1 <= k0, sand(s0 <= k0, k1 <= s1)), 'kept part outside its chunk')
                e.prove(snp.asarray(f).shape[0] <= cs, 'chunk longer than chunk_size')
            e.witness()
        elif kind == 'excerpts':
            ne = cfg['ne']
            n = e.int('n', 0)
            es = e.int('es', 1)
            ndt = cfg.get('n_dtype')
            if ndt:
                # every integer of the call is representable in the scalar's type (NumPy refuses others)
                hi = int(np.iinfo(ndt).max) if np.dtype(ndt).itemsize < 4 else 2 ** 31 - 1
                e.assume(sand(n <= hi, es <= hi))
            e.case_builder = lambda ev: {'kind': kind, 'n': ev(n), 'ne': ne, 'es': ev(es), 'n_dtype': ndt}
            try:
                ex = list(arr.excerpts(snp.mkscalar(n, np.dtype(ndt)) if ndt else n, n_excerpts=ne, excerpt_size=es))
            except Exception as exn:
                e.fail('exception %r' % (exn,))
            e.prove(len(ex) <= ne, 'too many excerpts')
            prev_end = 0
            for (a, b) in ex:
                e.prove(sand(0 <= a, a < b, b <= n), 'excerpt out of bounds or empty')
                e.prove(b - a <= es, 'excerpt too long')
                e.prove(a >= prev_end, 'excerpts overlap / not increasing')
                prev_end = b
            e.witness()
        elif kind == 'get_excerpts':
            ne = cfg['ne']
            n = e.int('n', 0)
            es = e.int('es', 1)
            e.case_builder = lambda ev: {'kind': kind, 'n': ev(n), 'ne': ne, 'es': ev(es)}
            data = _data(n)
            try:
                out = arr.get_excerpts(data, n_excerpts=ne, excerpt_size=es)
            except Exception as exn:
                e.fail('exception %r' % (exn,))
            short = n < ne * es
            if short:
                e.prove(out is data, 'short data not returned whole')
            else:
                out = snp.asarray(out)
                L = out.shape[0]
                e.prove(L <= ne * es, 'more than n_excerpts*excerpt_size rows')
                # the rows are an increasing selection of the data: out[k] = D(p(k)), and two
                # fresh positions k1 < k2 map to increasing data rows; with D uninterpreted the
                # only way out[k] == D(x) can be proved is that the element term is D(x).
                if ne >= 2:
                    ex = list(arr.excerpts(n, n_excerpts=ne, excerpt_size=es))
                elif ne == 1:
                    ex = [(0, ite(es < n, es, n))]
                else:
                    ex = []
                tot = 0
                k = e.int('k')
                src = None
                for (a, b) in ex:
                    inside = sand(k >= tot, k < tot + (b - a))
                    v = a + (k - tot)
                    src = v if src is None else ite(inside, v, src)
                    tot = tot + (b - a)
                e.prove(L == tot, 'wrong number of rows')
                if src is not None:
                    D = _D()
                    e.prove(implies(sand(k >= 0, k < L),
                                    lam.elem(out, (k,)) == SymInt(D(core.term_of(src)))),
                            'rows are not the excerpt rows in order')
            e.witness()
        elif kind == 'gcb':
            tr = pkg.load('phylib.io.traces')
            K, P = cfg['K'], cfg['P']
            cs = e.int('cs', 1)
            sizes = [e.int('s%d' % i, 1) for i in range(K)]
            for s in sizes:
                e.assume(s <= P * cs)
            e.case_builder = lambda ev: {'kind': kind, 'sizes': ev(sizes), 'cs': ev(cs)}
            try:
                b = tr._get_chunk_bounds(sizes, cs)
            except Exception as exn:
                e.fail('exception %r' % (exn,))
            _check_bounds(e, b, sizes, cs)
            e.witness()
        elif kind == 'flat_reader':
            from symx import vfs
            tr = pkg.load('phylib.io.traces')
            K, P = cfg['K'], cfg['P']
            vfs.reset()
            rate = 2.0
            cs = int(round(600.0 * rate))
            nc = 2
            isz = 2
            off = e.int('offset', 0)
            sizes = [e.int('s%d' % i, 1, P * cs) for i in range(K)]
            E = z3.Function('E', z3.IntSort(), z3.IntSort(), z3.IntSort())
            paths = []
            vfs.fs().mkdir('/d')
            for i, s in enumerate(sizes):
                p = vfs.VPath('/d/part%d.dat' % i)
                vfs.fs().add(p, vfs.raw_entry(off + s * nc * isz,
                                              (lambda i: lambda o, dt: SymInt(E(i, core.term_of(o))))(i)))
                paths.append(p)
            e.case_builder = lambda ev: {'kind': kind, 'sizes': ev(sizes), 'offset': ev(off), 'rate': rate,
                                         'nc': nc}
            try:
                r = tr.get_ephys_reader(paths, sample_rate=rate, dtype=np.int16, offset=off, n_channels=nc)
                b = r.chunk_bounds
                it = list(r.iter_chunks())
            except Exception as exn:
                e.fail('exception %r' % (exn,))
            _check_bounds(e, b, sizes, cs)
            _check_tiling(e, it, sum(sizes))
            e.witness()
        elif kind == 'cbin_iter':
            from symx import vfs
            tr = pkg.load('phylib.io.traces')
            nch = cfg['nch']
            bs = e.int('batch_size', 1)
            cb = [0]
            for i in range(nch):
                d = e.int('c%d' % i, 1)
                cb.append(cb[-1] + d)
            e.case_builder = lambda ev: {'kind': kind, 'chunk_bounds': ev(cb), 'batch_size': ev(bs),
                                         'cache': cfg['cache']}
            n = cb[-1]
            D = z3.Function('D2', z3.IntSort(), z3.IntSort(), z3.IntSort())
            data = lam.LArr((n, 1), 'int16',
                            lambda idx: SymInt(D(core.term_of(idx[0]), core.term_of(idx[1]))))
            stub = vfs.MtscompReaderStub().configure(data, 100.0, cb, bs, '/d/x.cbin')
            try:
                r = tr.MtscompEphysReader.__new__(tr.MtscompEphysReader)
                tr.BaseEphysReader.__init__(r)
                # same attribute wiring as MtscompEphysReader.__init__ (isinstance check on the
                # real mtscomp class is the only line skipped)
                r.reader = stub
                r.part_bounds = [0, stub.n_samples]
                r.chunk_bounds = stub.chunk_bounds
                it = []
                for iv in r.iter_chunks(cache=cfg['cache']):
                    it.append(iv)
                    if len(it) > nch + 2:
                        raise core.BoundExceeded('iter_chunks yields')
            except Exception as exn:
                e.fail('exception %r' % (exn,))
            _check_tiling(e, it, n)
            e.witness()
        else:
            raise ValueError(kind)

    e.loop_bound = 64
    e.explore(fn)


def _check_bounds(e, b, sizes, cs):
    e.prove(b[0] == 0, 'bounds do not start at 0')
    tot = 0
    for s in sizes:
        tot = tot + s
    e.prove(b[-1] == tot, 'bounds do not end at n_samples')
    for x, y in zip(b[:-1], b[1:]):
        e.prove(x < y, 'bounds not strictly increasing')
        e.prove(y - x <= cs, 'bounds further apart than the chunk length')
    acc = 0
    for s in sizes:
        acc = acc + s
        e.prove(sor(*[x == acc for x in b]), 'file boundary missing from chunk bounds')


def _check_tiling(e, it, n):
    """non-empty intervals tile [0, n) in order"""
    pos = 0
    for (i0, i1) in it:
        e.prove(i0 <= i1, 'interval with negative length')
        nonempty = i0 < i1
        e.prove(implies(nonempty, i0 == pos), 'gap or overlap in the chunk iterator')
        pos = ite(nonempty, i1, pos)
    e.prove(pos == n, 'chunk iterator does not end at n_samples')


# ------------------------------------------------------------------------------------------
# replay on the real stack
# ------------------------------------------------------------------------------------------

def replay(case):
    real_phylib()
    import tempfile, shutil, os
    from phylib.io import array as arr
    from phylib.io import traces as tr
    kind = case['kind']
    if kind == 'chunk_bounds':
        n, cs, ov = case['n'], case['cs'], case['ov']
        if n > 5_000_000:
            n_, f = n, 1
        data = np.arange(n)
        chunks = list(arr.chunk_bounds(n, cs, overlap=ov))
        kept = [arr.data_chunk(data, c) for c in chunks]
        cat = np.concatenate(kept) if kept else np.array([])
        if not np.array_equal(cat, data):
            return 'kept parts %s != data (n=%d, cs=%d, ov=%d)' % (cat.tolist()[:20], n, cs, ov)
        for c in chunks:
            full = arr.data_chunk(data, c, with_overlap=True)
            k = arr.data_chunk(data, c)
            if len(full) > cs:
                return 'chunk %s holds %d > chunk_size' % (c, len(full))
            if len(k) and not np.all(np.isin(k, full)):
                return 'kept part of %s not inside its chunk' % (c,)
        return None
    if kind == 'excerpts':
        n, ne, es = case['n'], case['ne'], case['es']
        try:
            ex = list(arr.excerpts(np.dtype(case['n_dtype']).type(n) if case.get('n_dtype') else n,
                                   n_excerpts=ne, excerpt_size=es))
        except Exception as exn:
            return 'excerpts raised %r' % (exn,)
        ex = [(int(a), int(b)) for a, b in ex]
        if len(ex) > ne:
            return 'too many excerpts'
        prev = 0
        for a, b in ex:
            if not (0 <= a < b <= n) or b - a > es or a < prev:
                return 'bad excerpt %s in %s (n=%d)' % ((a, b), ex, n)
            prev = b
        return None
    if kind == 'get_excerpts':
        n, ne, es = case['n'], case['ne'], case['es']
        data = np.arange(n)
        out = arr.get_excerpts(data, n_excerpts=ne, excerpt_size=es)
        if n < ne * es:
            return None if out is data else 'short data not returned whole'
        if len(out) > ne * es:
            return 'too long'
        if len(out) > 1 and not np.all(np.diff(out) > 0):
            return 'rows not increasing: %s' % out.tolist()[:20]
        if ne >= 2:
            ex = list(arr.excerpts(n, n_excerpts=ne, excerpt_size=es))
            want = np.concatenate([data[a:b] for a, b in ex])
        elif ne == 1:
            want = data[:es]
        else:
            want = data[:0]
        return None if np.array_equal(out, want) else 'rows differ'
    if kind == 'gcb':
        sizes, cs = case['sizes'], case['cs']
        b = tr._get_chunk_bounds(sizes, cs)
        return _conc_bounds(b, sizes, cs)
    if kind == 'flat_reader':
        sizes, off, rate, nc = case['sizes'], case['offset'], case['rate'], case['nc']
        d = tempfile.mkdtemp()
        try:
            paths = []
            from pathlib import Path
            for i, s in enumerate(sizes):
                p = Path(d) / ('part%d.dat' % i)
                with open(p, 'wb') as f:
                    f.write(b'\0' * off)
                    f.write(np.arange(s * nc, dtype=np.int16).tobytes())
                paths.append(p)
            r = tr.get_ephys_reader(paths, sample_rate=rate, dtype=np.int16, offset=off, n_channels=nc)
            cs = int(round(600.0 * rate))
            msg = _conc_bounds(list(r.chunk_bounds), sizes, cs)
            if msg:
                return msg
            return _conc_tiling(list(r.iter_chunks()), sum(sizes))
        finally:
            shutil.rmtree(d, ignore_errors=True)
    if kind == 'cbin_iter':
        cb, bs, cache = case['chunk_bounds'], case['batch_size'], case['cache']

        class R(object):
            pass
        stub = R()
        stub.chunk_bounds = cb
        stub.n_chunks = len(cb) - 1
        stub.batch_size = bs
        stub.n_batches = int(np.ceil(stub.n_chunks / bs))
        stub.pool = None
        stub.start_thread_pool = lambda: None
        stub.stop_thread_pool = lambda: None
        stub.set_cache_size = lambda n: None
        stub.decompress_chunks = lambda ids, pool: {}
        r = tr.MtscompEphysReader.__new__(tr.MtscompEphysReader)
        tr.BaseEphysReader.__init__(r)
        r.reader = stub
        r.chunk_bounds = cb
        it = list(r.iter_chunks(cache=cache))
        return _conc_tiling(it, cb[-1])
    raise ValueError(kind)


def _conc_bounds(b, sizes, cs):
    n = sum(sizes)
    if b[0] != 0 or b[-1] != n:
        return 'bounds %s do not span [0,%d]' % (b, n)
    for x, y in zip(b[:-1], b[1:]):
        if not x < y:
            return 'bounds not strictly increasing: %s' % b
        if y - x > cs:
            return 'bounds further apart than %d: %s' % (cs, b)
    for pb in np.cumsum(sizes):
        if pb not in b:
            return 'file boundary %d missing from %s' % (pb, b)
    return None


def _conc_tiling(it, n):
    pos = 0
    for i0, i1 in it:
        if i0 > i1:
            return 'negative interval %s' % ((i0, i1),)
        if i0 < i1:
            if i0 != pos:
                return 'gap/overlap at %s in %s' % ((i0, i1), it)
            pos = i1
    return None if pos == n else 'iterator ends at %d, not %d: %s' % (pos, n, it)


if __name__ == '__main__':
    sys.exit(harness.main('checks.c16'))
