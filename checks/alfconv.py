"""Shared ALF conversion harness for C13 (table consistency / reload / directory invariants) and
C14 (exported values)."""
import os
import z3
import numpy as np

from symx import core, env, lam, vfs, symnp as snp
from symx.core import SymInt, SymReal, SymBool, sand, sor, snot, implies, ite, ssum
from checks import datasets, models
from checks.datasets import RATE

FUNCS = ['phylib/io/alf.py:' + f for f in (
    'EphysAlfCreator.__init__', 'EphysAlfCreator.convert', 'EphysAlfCreator.copy_files',
    'EphysAlfCreator.rm_files', 'EphysAlfCreator._save_npy', 'EphysAlfCreator.make_cluster_objects',
    'EphysAlfCreator.make_channel_objects', 'EphysAlfCreator.make_depths',
    'EphysAlfCreator.make_template_and_spikes_objects', 'EphysAlfCreator.rename_with_label',
    'EphysAlfCreator.compress_spikes_dtypes', '_read_npy_header', '_create_if_possible', '_copy_if_possible')] + [
    'phylib/io/model.py:load_model', 'phylib/io/model.py:TemplateModel.get_amplitudes_true',
    'phylib/io/model.py:TemplateModel.get_depths', 'phylib/io/model.py:TemplateModel._waveform_durations',
    'phylib/io/model.py:TemplateModel._channels', 'phylib/io/model.py:TemplateModel.save_spikes_subset_waveforms']


def base_configs(tier):
    quick = tier == 'quick'
    base = {'ns': 3, 'T': 2, 'nc': 3, 'nsw': 2, 'names': 'ks'}
    out = [
        dict(base, sym=['spikes'], label='', factor=1.0, wm='diag'),
        dict(base, sym=['spikes'], label='probe00', factor=2.5, wm='I', optional={'pc_features': 'no'}),
        dict(base, sym=[], label='probe', factor=1.0, wm='I', optional={'pc_features': 'no'}),   # substring of a file name
        dict(base, sym=['templates'], label='', factor=1.0, wm='dense', optional={'pc_features': 'no',
                                                                                    'template_features': 'no'}),
        dict(base, sym=['ids'], curated=True, label='probe00', factor=1.0, wm='I'),
        dict(base, sym=['ids'], curated=True, label='', factor=0.5, wm='diag', optional={'pc_features': 'no'}),
        dict(base, sym=['channels'], label='', factor=1.0, wm='I', merged=[2, 1], optional={'pc_features': 'no'}),
        # probe table stored in 8 bits, raw channel ids beyond 255 (a 384-channel probe)
        dict(base, sym=['channels'], label='', factor=1.0, wm='I', merged=[2, 1], optional={'pc_features': 'no'},
             probe_dtype='uint8', om_hi=400),
        dict(base, nc=4, sym=['channels'], label='', factor=1.0, wm='I', merged=[1, 2, 1],
             optional={'pc_features': 'no'}),
        # two probes side by side (1 um apart): the other probe's channels are nearer than the own probe's (round 8)
        dict(base, nc=4, sym=['templates'], label='', factor=1.0, wm='I', merged=[2, 2], probe_dx=1.0,
             optional={'pc_features': 'no', 'template_features': 'no'}),
        dict(base, sym=['spikes'], label='', factor=1.0, wm='I', raw=True, ncd=4, optional={'raw': 'yes'},
             extras=['temp_wh.dat', 'cluster_KSLabel.tsv']),
        dict(base, sym=['spikes'], label='', factor=0.5, wm='diag', first_factor=2.0, optional={'pc_features': 'no'}),
        dict(base, sym=[], label='probe01', factor=1.0, wm='I', colvec=True,
             positions=[[0.0, 0.0], [20.0, 0.0], [0.0, 20.0]]),      # distance ties
        dict(base, sym=[], label='', factor=1.0, wm='I', optional={'pc_features': 'no'},
             positions=[[0.0, 0.0], [3.0, 3.0], [0.0, 5.0]]),        # L1 and Euclidean rankings differ
    ]
    if not quick:
        out += [
            dict(base, nc=5, sym=['channels'], label='', factor=1.0, wm='I', merged=[2, 1, 1, 1],
                 optional={'pc_features': 'no'}),
            dict(base, T=3, sym=['ids'], curated=True, label='', factor=1.0, wm='I'),
            dict(base, sym=['spikes', 'templates'], label='x', factor=2.0, wm='dense', optional={'pc_features': 'no'}),
            dict(base, sym=['ids', 'spikes'], curated=True, label='', factor=1.0, wm='I', ns=2),
        ]
    return out


class Conv(object):
    pass


def run_conversion(e, pkg, cfg, out='/alf'):
    """Build the dataset, load it, convert it.  Returns a Conv with everything the oracles need."""
    vfs.reset()
    ds = datasets.build(e, cfg)
    fs = vfs.fs()
    for x in cfg.get('extras', []):
        if x.endswith('.tsv'):
            fs.add(ds.dir + '/' + x, vfs.Entry('text', text='cluster_id\tKSLabel\n0\tgood\n1\tmua\n'))
        else:
            fs.add(ds.dir + '/' + x, vfs.Entry('bin', content=[]))
    e.case_builder = lambda ev: dict(datasets.case_of(ev, ds), label=cfg['label'], factor=cfg['factor'])
    mod = pkg.load('phylib.io.model')
    alf = pkg.load('phylib.io.alf')
    c = Conv()
    c.ds, c.cfg, c.fs = ds, cfg, fs
    m = mod.load_model(vfs.VPath(ds.dir + '/params.py'))
    m.n_closest_channels = cfg.get('ncl_closest', 2)
    c.model = m
    c.before = {k: v for k, v in fs.entries.items() if k.startswith(ds.dir + '/')}
    c.nlog = len(fs.log)
    creator = alf.EphysAlfCreator(m)
    c.creator = creator
    c.out = out
    if cfg.get('first_factor'):
        # an earlier export of the same model with another unit factor
        creator.convert(vfs.VPath(out + '0'), label='', ampfactor=cfg['first_factor'])
    c.result = creator.convert(vfs.VPath(out), label=cfg['label'], ampfactor=cfg['factor'])
    return c


def out_array(c, stem, must=True):
    """array stored as <stem>[.label].npy in the output directory"""
    lab = c.cfg['label']
    name = '%s%s.npy' % (stem, ('.' + lab) if lab and stem.split('.')[0] in ('channels', 'clusters', 'spikes', 'templates') else '')
    ent = c.fs.get('%s/%s' % (c.out, name))
    if ent is None or ent.kind != 'npy' or ent.corrupt:
        if must:
            core.eng().fail('output file %s missing' % name)
        return None
    return snp.asarray(ent.arr)


# ------------------------------------------------------------------------------------------
# real side
# ------------------------------------------------------------------------------------------

class RealConv(object):
    def __init__(self, case):
        self.rd = datasets.RealDS(case)
        cfg = case['cfg']
        for x in cfg.get('extras', []):
            p = os.path.join(self.rd.dir, x)
            if x.endswith('.tsv'):
                open(p, 'w').write('cluster_id\tKSLabel\n0\tgood\n1\tmua\n')
            else:
                open(p, 'wb').write(b'')
        from phylib.io import model as mod
        from phylib.io import alf
        self.before = self.rd.snapshot()
        self.model = mod.load_model(os.path.join(self.rd.dir, 'params.py'))
        self.model.n_closest_channels = cfg.get('ncl_closest', 2)
        self.after_load = self.rd.snapshot()
        self.out = os.path.join(self.rd.root, 'alf')
        self.label, self.factor = case['label'], case['factor']
        self.creator = alf.EphysAlfCreator(self.model)
        self.alf = alf

    def convert(self):
        if self.rd.cfg.get('first_factor'):
            self.creator.convert(self.out + '0', label='', ampfactor=self.rd.cfg['first_factor'])
        return self.creator.convert(self.out, label=self.label, ampfactor=self.factor)

    def load(self, stem):
        lab = self.label
        name = '%s%s.npy' % (stem, ('.' + lab) if lab and stem.split('.')[0] in ('channels', 'clusters', 'spikes', 'templates') else '')
        return np.load(os.path.join(self.out, name))

    def close(self):
        try:
            self.model.close()
        except Exception:
            pass
        self.rd.close()
