"""Shared construction of symbolic recordings/readers (C01, C02, C03) and of the matching
real files/readers for replays."""
import os
import shutil
import tempfile
import z3
import numpy as np

from symx import core, env, lam, vfs, symnp as snp
from symx.core import SymInt, SymReal, ite, sand

RATE = 30000.0
CHUNK = int(round(600.0 * RATE))

DTYPES = {'uint16': np.uint16, 'int16': np.int16, 'float32': np.float32, 'float64': np.float64, 'int32': np.int32,
          'uint8': np.uint8}


def _term_elem(t, dt):
    dt = np.dtype(dt)
    if dt.kind == 'f':
        return SymReal(z3.ToReal(t))
    if dt.kind == 'u':
        # file bytes of an unsigned type: the uninterpreted value reduced into the type's range
        return SymInt(t % (1 << (8 * dt.itemsize)))
    return SymInt(t)


class SymRecording(object):
    """A symbolic recording: K parts of symbolic size, nc channels, dtype, backend."""

    def __init__(self, e, backend, K, nc, dtype, max_part=None, header=True, small=64):
        self.e = e
        self.backend = backend
        self.K = K if backend == 'flat' else 1
        self.nc = nc
        self.dtype = np.dtype(dtype)
        self.isz = self.dtype.itemsize
        self.sizes = [e.int('s%d' % i, 1, max_part or (CHUNK - 1)) for i in range(self.K)]
        for s in self.sizes:
            e.prefer.append(s <= small // self.K if small // self.K >= 1 else s <= 1)
        self.h = e.int('offset', 0) if (backend == 'flat' and header) else 0
        if backend == 'flat' and header:
            e.prefer.append(self.h <= 16)
        self.bounds = [0]
        for s in self.sizes:
            self.bounds.append(self.bounds[-1] + s)
        self.n = self.bounds[-1]
        self.E = z3.Function('E', z3.IntSort(), z3.IntSort(), z3.IntSort())   # (file, byte) -> value
        self.D = z3.Function('Dm', z3.IntSort(), z3.IntSort(), z3.IntSort())  # (row, col) -> value

    # true element of the concatenated recording
    def T(self, row, col):
        if self.backend == 'flat':
            r = None
            for p in range(self.K - 1, -1, -1):
                off = self.h + ((row - self.bounds[p]) * self.nc + col) * self.isz
                v = SymInt(self.E(p, core.term_of(off)))
                r = v if r is None else ite(row < self.bounds[p + 1], v, r)
            return _term_elem(r.term, self.dtype)
        return _term_elem(self.D(core.term_of(row), core.term_of(col)), self.dtype)

    def _larr(self):
        dt = self.dtype
        D = self.D
        return lam.LArr((self.n, self.nc), dt,
                        lambda idx: _term_elem(D(core.term_of(idx[0]), core.term_of(idx[1])), dt))

    def make_reader(self, pkg, chunk_bounds=None, batch_size=1, dtype_kw=None):
        """Build the reader through the real get_ephys_reader on the virtual file system."""
        tr = pkg.load('phylib.io.traces')
        fs = vfs.fs()
        fs.mkdir('/d')
        dt = self.dtype
        if self.backend == 'flat':
            paths = []
            for p, s in enumerate(self.sizes):
                path = vfs.VPath('/d/part%d.dat' % p)
                E = self.E
                fs.add(path, vfs.raw_entry(self.h + s * self.nc * self.isz,
                                           (lambda p: lambda o, d: _term_elem(E(p, core.term_of(o)), d))(p)))
                paths.append(path)
            arg = paths if self.K > 1 or self.e_list else paths[0]
            return tr.get_ephys_reader(arg, sample_rate=RATE, dtype=dt.type, offset=self.h,
                                       n_channels_dat=self.nc)
        if self.backend == 'npy':
            path = vfs.VPath('/d/rec.npy')
            fs.add(path, vfs.npy_entry(self._larr()))
            kw = {} if dtype_kw is None else {'dtype': np.dtype(dtype_kw).type}
            return tr.get_ephys_reader(path, sample_rate=RATE, **kw)
        if self.backend == 'array':
            kw = {} if dtype_kw is None else {'dtype': np.dtype(dtype_kw).type}
            return tr.get_ephys_reader(self._larr(), sample_rate=RATE, **kw)
        if self.backend == 'cbin':
            path = vfs.VPath('/d/rec.cbin')
            cb = chunk_bounds or [0, self.n]
            fs.add(path, vfs.Entry('cbin', arr=self._larr(), sample_rate=RATE, chunk_bounds=cb,
                                   batch_size=batch_size))
            return tr.get_ephys_reader(path)
        raise ValueError(self.backend)

    e_list = True

    def case(self, ev):
        return {'backend': self.backend, 'sizes': ev(self.sizes), 'nc': self.nc, 'dtype': self.dtype.name,
                'offset': ev(self.h)}


# ------------------------------------------------------------------------------------------
# real side
# ------------------------------------------------------------------------------------------

class RealRecording(object):
    def __init__(self, case, values=None):
        from symx.loader import real_phylib
        real_phylib()
        self.case = case
        self.dir = tempfile.mkdtemp(prefix='phyv_')
        sizes, nc = case['sizes'], case['nc']
        dt = np.dtype(case['dtype'])
        n = sum(sizes)
        if n * nc > 2000000 or case.get('offset', 0) > 1000000:
            raise core.TooLarge('recording of %d rows, offset %s' % (n, case.get('offset')))
        if values is None:
            if dt.kind == 'f':
                data = (np.arange(n * nc) * 0.5 - 3).astype(dt).reshape(n, nc)
            else:
                data = ((np.arange(n * nc) * 7 + 1) % 30011 - (0 if dt.kind == 'u' else 1000)).astype(dt).reshape(n, nc)
        else:
            data = np.asarray(values, dtype=dt).reshape(n, nc)
        self.data = data
        self.n, self.nc, self.dtype = n, nc, dt

    def reader(self, chunk_duration=None, **kw):
        from phylib.io import traces as tr
        from pathlib import Path
        c = self.case
        b = c['backend']
        d = Path(self.dir)
        if b == 'flat':
            paths = []
            i0 = 0
            for p, s in enumerate(c['sizes']):
                path = d / ('part%d.dat' % p)
                with open(path, 'wb') as f:
                    f.write(bytes((7 * k + 3) % 251 for k in range(c['offset'])))
                    f.write(np.ascontiguousarray(self.data[i0:i0 + s]).tobytes())
                i0 += s
                paths.append(path)
            return tr.get_ephys_reader(paths, sample_rate=RATE, dtype=self.dtype.type, offset=c['offset'],
                                       n_channels_dat=self.nc)
        dkw = {} if not kw.get('dtype_kw') else {'dtype': np.dtype(kw['dtype_kw']).type}
        if b == 'npy':
            np.save(d / 'rec.npy', self.data)
            return tr.get_ephys_reader(d / 'rec.npy', sample_rate=RATE, **dkw)
        if b == 'array':
            return tr.get_ephys_reader(self.data, sample_rate=RATE, **dkw)
        if b == 'cbin':
            import mtscomp
            raw = d / 'rec.bin'
            with open(raw, 'wb') as f:
                f.write(np.ascontiguousarray(self.data).tobytes())
            cd = chunk_duration or max(1, self.n) / RATE
            mtscomp.compress(raw, d / 'rec.cbin', d / 'rec.ch', sample_rate=RATE, n_channels=self.nc,
                             dtype=self.dtype, chunk_duration=cd, n_threads=kw.get('n_threads', 1),
                             check_after_compress=False, quiet=True)
            if 'n_threads' in kw:
                # the reader's batch size is its own thread count (phylib uses cpu_count() // 2)
                r = mtscomp.Reader(n_threads=kw['n_threads'])
                r.open(d / 'rec.cbin')
                return tr.get_ephys_reader(r)
            return tr.get_ephys_reader(d / 'rec.cbin')
        raise ValueError(b)

    def close(self):
        shutil.rmtree(self.dir, ignore_errors=True)
