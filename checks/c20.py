"""C20 No download is reported successful with a file failing its published checksum."""
import sys
import types
import z3

from symx import core, env, harness, vfs
from symx.core import SymInt, SymBool, Sym, sand, sor

PID = 'C20'
FUNCTIONS = ['phylib/io/datasets.py:' + f for f in (
    'download_file', '_check_md5_of_url', '_check_md5', '_md5', '_download', 'download_text_file',
    '_save_stream', '_remote_file_size')]
BOUNDS = {
    'quick': {'requests_served': 8, 'body_chunks': '1..3 (symbolic lengths, empty keep-alive chunks included)',
              'unbounded': ['chunk lengths', 'content-length header']},
    'thorough': {'requests_served': 10, 'body_chunks': '1..4',
                 'unbounded': ['chunk lengths', 'content-length header']},
}
ASSUMPTIONS = [
    'server behaviour is one symbolic choice per request in arrival order: data URL in {good body, corrupt body, '
    '404}; checksum URL in {correct, wrong, unavailable}; HEAD in {content-length (symbolic), failure}',
    'prior file in {absent, valid, corrupt}',
    'hashlib.md5 is an injective function of the written byte sequence (contract stub); bodies are sequences of '
    'chunks with symbolic lengths, a zero-length chunk is falsy',
    'the discrete choices are enumerated by the solver (bounded-exhaustive in the number of requests)',
    'round 8: a fourth checksum-file behaviour, a wrong checksum that is a strict prefix of the right digest (truncated file); model digests '
    'are lower-case strings without blanks',
]
STUBS = ['ProgressReporter (no-op in the symbolic run; real in replays)', 'requests.get/head (scripted responses)', 'hashlib.md5 (injective)', 'open/Path (virtual file system)']
OUTSIDE = ['real HTTP and real MD5 (met in replays: real hashlib, real files, fake requests module)',
           'exceptions raised inside iter_content']
WITNESS_CAP = {'quick': 60, 'thorough': 150}

URL = 'http://example.org/data.bin'


class HTTPError(Exception):
    pass


class _Resp(object):
    def __init__(self, status, url, text='', chunks=()):
        self.status_code = status
        self.url = url
        self.text = text
        self._chunks = chunks
        self.headers = {}

    def raise_for_status(self):
        if self.status_code != 200:
            raise HTTPError('%d' % self.status_code)

    def iter_content(self, chunk_size=None):
        return iter(self._chunks)


class Chunk(object):
    """A body chunk with symbolic (or concrete) length."""
    def __init__(self, body, idx, length):
        self.body, self.idx, self.length = body, idx, length

    def __bool__(self):
        return bool(self.length > 0)

    def __symlen__(self):
        return self.length

    def __len__(self):
        return int(self.length)


def content_id(tokens):
    return tuple((t.body, t.idx) for t in tokens if bool(t))


class World(object):
    """Scripted server + bookkeeping.  `pick(name, options)` makes the (symbolic) choices."""
    def __init__(self, pick, mklen, nchunks, max_requests):
        self.pick, self.mklen, self.nchunks = pick, mklen, nchunks
        self.max_requests = max_requests
        self.served = []       # ('data', kind) / ('md5', kind)
        self.nreq = 0
        self.good = [Chunk('G', i, mklen('g%d' % i)) for i in range(nchunks)]
        self.bodies = {'G': self.good}
        self.ncorrupt = 0

    def good_id(self):
        return content_id(self.good)

    def _count(self):
        self.nreq += 1
        if self.nreq > self.max_requests:
            raise core.BoundExceeded('more than %d requests' % self.max_requests)

    def get(self, url, stream=None):
        self._count()
        if url == URL:
            k = self.pick('data%d' % self.nreq, ['good', 'corrupt', '404'])
            self.served.append(('data', k))
            if k == '404':
                return _Resp(404, url)
            if k == 'good':
                return _Resp(200, url, chunks=list(self.good))
            self.ncorrupt += 1
            name = 'C%d' % self.ncorrupt
            # a corrupt body: the good chunks with one replaced / truncated (always different content)
            body = [Chunk(name, i, g.length) for i, g in enumerate(self.good)]
            body.append(Chunk(name, 'x', 1))
            self.bodies[name] = body
            return _Resp(200, url, chunks=body)
        if url == URL + '.md5':
            k = self.pick('md5_%d' % self.nreq, ['correct', 'wrong', 'truncated', 'missing'] if getattr(self, 'trunc', True)
                          else ['correct', 'wrong', 'missing'])
            self.served.append(('md5', k))
            if k == 'missing':
                return _Resp(404, url)
            digest = md5_of(self.good_id()) if k == 'correct' else md5_of(('W',))
            if k == 'truncated':      # a wrong checksum that is a strict prefix of the right one (round 8)
                digest = md5_of(self.good_id())[:-2]
            return _Resp(200, url, text='%s  data.bin\n' % digest)
        raise AssertionError('unexpected url %r' % url)

    def head(self, url):
        k = self.pick('head%d' % self.nreq, ['len', 'fail'])
        if k == 'fail':
            raise HTTPError('head failed')
        r = _Resp(200, url)
        r.headers = {'content-length': self.mklen('clen')}
        return r


def md5_of(cid):
    # lower-case and free of blanks, like a hex digest (invariant under str.strip/str.lower); body names differ
    # case-insensitively, so the rendering stays injective
    return ('md5<%s>' % ','.join('%s%s' % p for p in cid)).lower() if cid != ('W',) else 'md5<wrong>'


class _Md5(object):
    def __init__(self):
        self.toks = []

    def update(self, buf):
        if isinstance(buf, Chunk):
            self.toks.append(buf)
        elif isinstance(buf, list):
            self.toks.extend(buf)

    def hexdigest(self):
        return md5_of(content_id(self.toks))


def expected(served, prior_good):
    """Reference outcome from the responses that were served (statement of C20).
    prior_good: None (no file), True (valid file), False (corrupt file).
    -> (outcome, n_data_requests, n_served_needed, file_is_good, last_check)"""
    it = iter(served)
    n = [0]
    ndata = 0
    good = prior_good

    def nxt(kind):
        s = next(it)
        n[0] += 1
        if s[0] != kind:
            raise ValueError('protocol order: expected a %s request, saw %s' % (kind, s))
        return s[1]

    def verify():
        k = nxt('md5')
        if k == 'missing':
            return None
        return bool(good) if k == 'correct' else False
    try:
        if prior_good is not None:
            if verify() is True:
                return ('return', 0, n[0], good, True)
        v = None
        for attempt in range(2):
            k = nxt('data')
            ndata += 1
            if k == '404':
                return ('raise', ndata, n[0], None, None)
            good = (k == 'good')
            v = verify()
            if v is not False:
                return ('return', ndata, n[0], good, v)
        return ('raise', ndata, n[0], None, None)
    except StopIteration:
        return ('incomplete', ndata, n[0] + 1, None, None)
    except ValueError as ex:
        return (str(ex), ndata, n[0], None, None)


def judge(served, prior_good, outcome, is_good):
    exp = expected(served, prior_good)
    ndata = sum(1 for s in served if s[0] == 'data')
    if exp[0] not in ('return', 'raise'):
        return '%s: fewer/other requests than the protocol requires (served %s, outcome %s)' % (
            exp[0], served, outcome)
    if len(served) != exp[2]:
        return 'made %d requests %s, the protocol needs %d' % (len(served), served, exp[2])
    if outcome != exp[0]:
        return 'download_file %s, expected to %s (served %s, prior file %s)' % (
            'returned' if outcome == 'return' else 'raised', exp[0], served,
            {None: 'absent', True: 'valid', False: 'corrupt'}[prior_good])
    if ndata != exp[1]:
        return '%d data requests, expected %d' % (ndata, exp[1])
    if outcome == 'return':
        if is_good != exp[3]:
            return 'final file %s the good body, expected the opposite (served %s)' % (
                'is' if is_good else 'is not', served)
        if exp[4] is not None and not is_good:
            return 'returned normally with a file failing the published checksum (served %s)' % (served,)
    return None


def configs(tier):
    out = []
    for prior in ('absent', 'valid', 'corrupt'):
        for nch in ((1, 2, 3) if tier == 'quick' else (1, 2, 3, 4)):
            out.append({'prior': prior, 'nchunks': nch, 'max_requests': 8 if tier == 'quick' else 10,
                        'trunc': tier == 'quick'})
    if tier != 'quick':     # the truncated-checksum behaviour is explored with the quick tier's script length
        out += configs('quick')
    return out


def run_config(cfg, e):
    holder = {}
    req = types.ModuleType('requests')
    req.get = lambda url, stream=None: holder['w'].get(url, stream)
    req.head = lambda url: holder['w'].head(url)
    hl = types.ModuleType('hashlib')
    hl.md5 = _Md5
    pkg = env.make_pkg(extra_env={'requests': req, 'hashlib': hl}, record=e.functions)
    ds = pkg.load('phylib.io.datasets')
    evmod = pkg.load('phylib.utils.event')

    class _NoProgress(object):
        """ProgressReporter stub: progress display is not the subject (its own state machine is C19)."""
        value = 0
        value_max = 0

        def set_progress_message(self, *a, **k):
            pass

        def set_complete_message(self, *a, **k):
            pass

        def set_complete(self, **k):
            pass
    ds.ProgressReporter = _NoProgress

    def fn():
        vfs.reset()
        evmod.reset()
        evmod.set_silent(True)      # progress messages print; formatting is not the subject
        choices = []

        def pick(name, options):
            v = e.choice(name, options)
            choices.append([name, v])
            return v

        lens = []

        def mklen(name):
            v = e.int(name, 0)
            e.prefer.append(v <= 3)
            lens.append((name, v))
            return v
        w = World(pick, mklen, cfg['nchunks'], cfg['max_requests'])
        w.trunc = cfg.get('trunc', True)
        holder['w'] = w
        # the good body has some content
        e.assume(sor(*[c.length > 0 for c in w.good]))
        path = vfs.VPath('/dl/data.bin')
        vfs.fs().mkdir('/dl')
        prior = None
        if cfg['prior'] == 'valid':
            vfs.fs().add(path, vfs.Entry('bin', content=list(w.good)))
            prior = True
        elif cfg['prior'] == 'corrupt':
            vfs.fs().add(path, vfs.Entry('bin', content=[Chunk('P', 0, 1)]))
            prior = False
        e.case_builder = lambda ev: {'prior': cfg['prior'], 'nchunks': cfg['nchunks'],
                                     'choices': [[n, v] for n, v in choices],
                                     'lens': {n: ev(v) for n, v in lens}}
        try:
            ds.download_file(URL, path)
            outcome = 'return'
        except (HTTPError, RuntimeError):
            outcome = 'raise'
        except Exception as ex:
            e.fail('unexpected exception %r' % (ex,))
        ent = vfs.fs().get(path)
        final_id = content_id(ent.content) if ent is not None and ent.kind == 'bin' else None
        msg = judge(w.served, prior, outcome, final_id == w.good_id())
        e.stats.inc('obligations')
        if msg:
            e.fail(msg)
        e.stats.inc('discharged')
        e.witness()

    e.explore(fn)


# ------------------------------------------------------------------------------------------
# replay: real phylib.io.datasets, real files, real hashlib; requests replaced by a scripted module
# ------------------------------------------------------------------------------------------

def replay(case):
    import hashlib
    import os
    import shutil
    import tempfile
    from symx.loader import real_phylib
    real_phylib()
    import phylib.io.datasets as ds
    import phylib.utils.event as evmod
    lens = case['lens']
    nch = case['nchunks']
    choices = {n: v for n, v in case['choices']}

    def mkbody(tag):
        return [b'g' * lens.get('g%d' % i, 0) for i in range(nch)]
    good = mkbody('G')
    state = {'n': 0, 'nc': 0, 'served': []}

    class R(object):
        def __init__(self, status, url, text='', chunks=()):
            self.status_code, self.url, self.text, self._c, self.headers = status, url, text, chunks, {}

        def raise_for_status(self):
            if self.status_code != 200:
                raise HTTPError(str(self.status_code))

        def iter_content(self, chunk_size=None):
            return iter(self._c)

    def get(url, stream=None):
        state['n'] += 1
        if url == URL:
            k = choices.get('data%d' % state['n'])
            if k is None:
                raise core.TooLarge('script exhausted')
            state['served'].append(('data', k))
            if k == '404':
                return R(404, url)
            if k == 'good':
                return R(200, url, chunks=list(good))
            state['nc'] += 1
            name = 'C%d' % state['nc']
            body = [b'c' * lens.get('g%d' % i, 0) for i in range(nch)] + [b'!']
            return R(200, url, chunks=body)
        k = choices.get('md5_%d' % state['n'])
        if k is None:
            raise core.TooLarge('script exhausted')
        state['served'].append(('md5', k))
        if k == 'missing':
            return R(404, url)
        dg = hashlib.md5(b''.join(good)).hexdigest() if k == 'correct' else '0' * 32
        if k == 'truncated':
            dg = hashlib.md5(b''.join(good)).hexdigest()[:8]
        return R(200, url, text='%s  data.bin\n' % dg)

    def head(url):
        k = choices.get('head%d' % state['n'], 'fail')
        if k == 'fail':
            raise HTTPError('head')
        r = R(200, url)
        r.headers = {'content-length': lens.get('clen', 0)}
        return r
    fake = types.ModuleType('requests')
    fake.get, fake.head = get, head
    old = sys.modules.get('requests')
    sys.modules['requests'] = fake
    d = tempfile.mkdtemp(prefix='phyv_dl_')
    evmod.reset()
    evmod.set_silent(True)
    try:
        path = os.path.join(d, 'data.bin')
        if case['prior'] == 'valid':
            open(path, 'wb').write(b''.join(good))
        elif case['prior'] == 'corrupt':
            open(path, 'wb').write(b'P')
        try:
            ds.download_file(URL, path)
            outcome = 'return'
        except (HTTPError, RuntimeError):
            outcome = 'raise'
        except core.TooLarge:
            return 'made more requests than the scripted history (%s)' % state['served']
        except Exception as ex:
            return 'unexpected exception %r' % (ex,)
        content = open(path, 'rb').read() if os.path.exists(path) else None

        pg = {'absent': None, 'valid': True, 'corrupt': False}[case['prior']]
        msg = judge(state['served'], pg, outcome, content == b''.join(good))
        return msg
    finally:
        evmod.set_silent(False)
        shutil.rmtree(d, ignore_errors=True)
        if old is not None:
            sys.modules['requests'] = old
        else:
            sys.modules.pop('requests', None)


if __name__ == '__main__':
    sys.exit(harness.main('checks.c20'))
