"""C14 Exported ALF values equal the physical quantities they name."""
import sys
import os
import z3
import numpy as np

from symx import core, env, lam, harness, vfs, symnp as snp
from symx.core import SymInt, SymReal, SymBool, sand, sor, snot, implies, ite, ssum
from checks import alfconv, datasets, models
from checks.datasets import RATE

PID = 'C14'
FUNCTIONS = alfconv.FUNCS
BOUNDS = {
    'quick': {'spikes': 3, 'templates': 2, 'channels': '3..4', 'probes': '1..3 (merged layout)',
              'unbounded': ['stored amplitudes', 'spike samples', 'cluster assignments', 'original channel maps of '
                            'the merged probes']},
    'thorough': {'spikes': '2..3', 'templates': '2..3', 'channels': '3..5', 'probes': '1..4',
                 'unbounded': ['stored amplitudes', 'spike samples', 'cluster assignments', 'original channel maps']},
}
ASSUMPTIONS = [
    'merged datasets are generated directly in the layout Merger writes (probe blocks; raw ids of block k shifted '
    'by the maximum raw id of block k-1) with symbolic original channel maps',
    'waveform values and amplitude scaling are checked on configurations with concrete templates (the scaling '
    'chain is then linear in the symbolic amplitudes); the peak channel is the model\'s templates_channels / '
    'clusters_channels (C09)',
    'n_closest_channels = 2 and every probe listed has at least that many channels, or the selection is not examined',
    'float32 casts are identities; exact rational arithmetic',
    'forms added after seeding rounds: two exports of one model with different factors, a layout where L1 and Euclidean rankings differ, curated dataset without features (NaN depths are failed obligations), 8-bit probe table with raw ids up to 400',
    'round 7: values of clusters.waveforms and clusters.amps for curated datasets (ids concretised per path): unwhitened cluster waveform of the model (C08) x mean stored amplitude x unit factor',
    'round 8: two probes of two channels each lying side by side (1 um apart in x, so the other probe\'s channels are nearer than the own '
    'probe\'s), symbolic template values (the peak may fall on either probe)',
]
STUBS = ['virtual file system', 'tqdm', 'np.random.choice (arbitrary subset)']
OUTSIDE = ['float rounding', 'symbolic template values for the rescaled waveforms', 'sparse templates']
WITNESS_CAP = {'quick': 20, 'thorough': 40}
LOOP_BOUND = 16


def configs(tier):
    return alfconv.base_configs(tier)


def _close(g, w):
    """equality, up to float32 rounding when both values are concrete floats"""
    if not isinstance(g, core.Sym) and not isinstance(w, core.Sym):
        return abs(g - w) <= 1e-5 * (1 + abs(w))
    return g == w


def _isnan(x):
    return not isinstance(x, core.Sym) and x != x


def _conc(x):
    return core.eng().concretize(core.term_of(x)) if isinstance(x, core.Sym) else x


def run_config(cfg, e):
    pkg = env.make_pkg(record=e.functions)
    e.concretize_shapes = True
    e.hash_concretize = True

    def fn():
        try:
            c = alfconv.run_conversion(e, pkg, cfg)
        except Exception as ex:
            e.fail('exception %r' % (ex,))
        ds, m = c.ds, c.model
        ns, T, nc, nsw = cfg['ns'], cfg['T'], cfg['nc'], cfg['nsw']
        f = cfg['factor']
        A = lambda stem, must=True: alfconv.out_array(c, stem, must)
        obl = []
        # ---- raw channel indices per probe ----
        raw = A('channels.rawInd')
        if cfg.get('merged'):
            k = 0
            for p, om in enumerate(ds.orig_maps):
                for v in om:
                    obl.append((raw.a[k] == v, 'channels.rawInd of probe %d is not its original channel map' % p))
                    k += 1
        else:
            for k in range(nc):
                obl.append((raw.a[k] == ds.cm[k], 'channels.rawInd (single probe)'))
        e.prove_all(obl)
        conc_tpl = 'templates' not in cfg.get('sym', [])
        same = sand(*[a == b for a, b in zip(ds.sc, ds.st)])
        curated = not bool(same)
        mx = ds.sc[0]
        for v in ds.sc[1:]:
            mx = ite(v > mx, v, mx)
        nclu = _conc(mx) + 1 if curated else T
        probes = [int(v) for v in snp.asarray(m.channel_probes).a.tolist()]
        pos = np.array(ds.pos)
        if conc_tpl:
            data = np.array(ds.tv, dtype=float).reshape(T, nsw, nc)
            wm = ds.wm if ds.wm is not None else np.eye(nc)
            wmi = np.linalg.inv(wm)
            U = np.stack([data[t] @ wmi for t in range(T)])
            au = (U.max(axis=1) - U.min(axis=1)).max(axis=1)
            # ---- amplitudes ----
            sa, ta = A('spikes.amps'), A('templates.amps')
            obl = []
            for i in range(ns):
                want = SymReal(0)
                for t in range(T):
                    want = ite(ds.st[i] == t, ds.am[i] * float(au[t]) * f, want)
                obl.append((sa.a[i] == want, 'spikes.amps[%d] is not stored amplitude x template amplitude x factor' % i))
            means = []
            for t in range(T):
                cnt = _conc(ssum([ite(s == t, 1, 0) for s in ds.st]))
                tot = ssum([ite(s == t, a, SymReal(0)) for s, a in zip(ds.st, ds.am)])
                means.append((cnt, tot))
                if cnt == 0:
                    obl.append((not isinstance(ta.a[t], core.Sym) and ta.a[t] != ta.a[t], 'templates.amps of an unused template is not NaN'))
                else:
                    obl.append((ta.a[t] * cnt == tot * float(au[t]) * f, 'templates.amps[%d]' % t))
            e.prove_all(obl)
            # ---- template waveforms on the nearest channels of the same probe ----
            tw, twc = A('templates.waveforms'), A('templates.waveformsChannels')
            tch = [int(v) for v in snp.asarray(m.templates_channels).a.tolist()]
            ncw = min(2, nc)
            obl = [(tw.shape == (T, nsw, ncw) and twc.shape == (T, ncw), 'templates.waveforms shape')]
            for t in range(T):
                chs = [int(v) for v in twc.a[t].tolist()]
                pk = tch[t]
                on_probe = [k for k in range(nc) if probes[k] == probes[pk]]
                dist = np.abs(pos - pos[pk]).sum(axis=1)
                if len(on_probe) >= ncw:
                    obl.append((chs[0] == pk, 'template %d: peak channel is not listed first' % t))
                    obl.append((len(set(chs)) == len(chs) and all(k in on_probe for k in chs),
                                'template %d: listed channels %s are not distinct channels of the peak channel\'s probe' % (t, chs)))
                    far = max(dist[k] for k in chs)
                    obl.append((all(dist[k] >= far for k in on_probe if k not in chs) and
                                all(dist[chs[j]] <= dist[chs[j + 1]] for j in range(len(chs) - 1)),
                                'template %d: listed channels %s are not the nearest ones (distances %s)' % (t, chs, dist.tolist())))
                cnt, tot = means[t]
                for s_ in range(nsw):
                    for j, k in enumerate(chs):
                        got = tw.a[t, s_, j]
                        if cnt == 0 or au[t] == 0:
                            continue
                        obl.append((got * cnt * float(au[t]) == tot * float(au[t]) * f * float(U[t, s_, k]),
                                    'templates.waveforms[%d,:,%d] is not the rescaled unwhitened template on channel %d' % (t, j, k)))
            e.prove_all(obl)
        # ---- cluster waveforms: nearest same-probe channels of the cluster's peak channel, peak first;
        #      for an uncurated dataset they are the template waveforms ----
        cw, cwc = A('clusters.waveforms'), A('clusters.waveformsChannels')
        cchm = [int(v) for v in snp.asarray(m.clusters_channels).a.tolist()]
        ncw = min(2, nc)
        obl = [(cw.shape == (nclu, nsw, ncw) and cwc.shape == (nclu, ncw), 'clusters.waveforms shape %s for %d clusters' % (cw.shape, nclu))]
        e.prove_all(obl)
        obl = []
        for cl in range(nclu):
            chs = [int(v) for v in cwc.a[cl].tolist()]
            pk = cchm[cl]
            on_probe = [k for k in range(nc) if probes[k] == probes[pk]]
            dist = np.abs(pos - pos[pk]).sum(axis=1)
            if len(on_probe) >= ncw:
                obl.append((chs[0] == pk, 'cluster %d: peak channel is not listed first' % cl))
                obl.append((len(set(chs)) == len(chs) and all(k in on_probe for k in chs),
                            'cluster %d: listed channels %s are not distinct channels of the peak channel\'s probe' % (cl, chs)))
                far = max(dist[k] for k in chs)
                obl.append((all(dist[k] >= far for k in on_probe if k not in chs),
                            'cluster %d: listed channels %s are not the nearest ones' % (cl, chs)))
            if conc_tpl and not curated and cl < T:
                cnt, tot = means[cl]
                for s_ in range(nsw):
                    for j, k in enumerate(chs):
                        if cnt == 0 or au[cl] == 0:
                            continue
                        obl.append((cw.a[cl, s_, j] * cnt * float(au[cl]) == tot * float(au[cl]) * f * float(U[cl, s_, k]),
                                    'clusters.waveforms[%d,:,%d] is not the rescaled unwhitened waveform on channel %d' % (cl, j, k)))
        e.prove_all(obl)
        # ---- cluster waveform values and amplitudes of a curated dataset: unwhitened cluster waveform (the
        #      model's, C08) x mean stored amplitude of the cluster's spikes x unit factor ----
        if conc_tpl and curated and not any(isinstance(a, core.Sym) for a in ds.am):
            stv = [_conc(x) for x in ds.st]
            scv = [_conc(x) for x in ds.sc]
            cdata = snp.asarray(m.sparse_clusters.data)
            camp = A('clusters.amps')
            obl = []
            for cl in range(nclu):
                mem = [float(ds.am[i]) for i in range(ns) if scv[i] == cl]
                if not mem:
                    continue
                chs = [int(v) for v in cwc.a[cl].tolist()]
                Ucl = [[sum((cdata.a[cl, s_, c] * float(wmi[c, k]) for c in range(nc)), SymReal(0)) for k in range(nc)]
                       for s_ in range(nsw)]
                tot = float(sum(mem))
                for s_ in range(nsw):
                    for j, k in enumerate(chs):
                        if _isnan(cw.a[cl, s_, j]):
                            obl.append((False, 'clusters.waveforms[%d] is NaN although the cluster has spikes' % cl))
                            continue
                        d_ = cw.a[cl, s_, j] * len(mem) - Ucl[s_][k] * (tot * f)
                        obl.append((sand(d_ <= 1e-6, d_ >= -1e-6),
                                    'clusters.waveforms[%d,:,%d] is not the rescaled unwhitened cluster waveform on channel %d' % (cl, j, k)))
                ptp = models.ptp_terms([[Ucl[s_][k] for k in range(nc)] for s_ in range(nsw)])
                aucl = ptp[0]
                for v in ptp[1:]:
                    aucl = ite(v > aucl, v, aucl)
                if _isnan(camp.a[cl]):
                    obl.append((False, 'clusters.amps[%d] is NaN although the cluster has spikes' % cl))
                    continue
                d_ = camp.a[cl] * len(mem) - aucl * (tot * f)
                obl.append((sand(d_ <= 1e-6, d_ >= -1e-6), 'clusters.amps[%d] is not the largest peak-to-peak value x mean amplitude x factor' % cl))
            e.prove_all(obl)
        # ---- cluster depths / durations / spike depths ----
        cch = A('clusters.channels')
        cdep, cdur = A('clusters.depths'), A('clusters.peakToTrough')
        sdep = A('spikes.depths')
        obl = [(cch.shape[0] == nclu and cdep.shape[0] == nclu and cdur.shape[0] == nclu, 'cluster table sizes')]
        e.prove_all(obl)
        obl = []
        mch = snp.asarray(m.clusters_channels).a.tolist()
        mdur = snp.asarray(m.clusters_waveforms_durations).a.tolist()
        for cl in range(nclu):
            empty = (_conc(ssum([ite(s == cl, 1, 0) for s in ds.sc])) == 0) if curated else False
            obl.append((cch.a[cl] == mch[cl], 'clusters.channels[%d]' % cl))
            if empty:
                obl.append((not isinstance(cdep.a[cl], core.Sym) and cdep.a[cl] != cdep.a[cl], 'depth of an empty cluster is not NaN'))
                obl.append((not isinstance(cdur.a[cl], core.Sym) and cdur.a[cl] != cdur.a[cl], 'duration of an empty cluster is not NaN'))
            else:
                ych = SymReal(0)
                for k in range(nc):
                    ych = ite(cch.a[cl] == k, float(pos[k, 1]), ych)
                obl.append((cdep.a[cl] == ych, 'clusters.depths[%d] is not the depth of its peak channel' % cl))
                obl.append((cdur.a[cl] == mdur[cl], 'clusters.peakToTrough[%d]' % cl))
        if m.sparse_features is None:
            for i in range(ns):
                want = SymReal(0)
                for cl in range(nclu):
                    v = cdep.a[cl]
                    if not isinstance(v, core.Sym) and v != v:
                        continue
                    want = ite(ds.sc[i] == cl, v, want)
                got = sdep.a[i]
                if not isinstance(got, core.Sym) and got != got:
                    obl.append((False, 'spikes.depths[%d] is NaN although its cluster has a depth' % i))
                    continue
                obl.append((_close(got, want) if not isinstance(want, core.Sym) else got == want,
                            'spikes.depths[%d] is not the depth of its cluster' % i))
        else:
            gd = snp.asarray(m.get_depths()).a.tolist()
            for i in range(ns):
                g, w = sdep.a[i], gd[i]
                if not isinstance(w, core.Sym) and w != w:
                    obl.append((not isinstance(g, core.Sym) and g != g, 'spikes.depths NaN'))
                else:
                    obl.append((_close(g, w), 'spikes.depths[%d] is not the feature-weighted depth' % i))
        e.prove_all(obl)
        e.witness()

    e.explore(fn)


def replay(case):
    cfg = case['cfg']
    rc = alfconv.RealConv(case)
    try:
        try:
            m2 = rc.convert()
        except Exception as ex:
            return 'convert raised %r' % (ex,)
        if m2 is not None:
            m2.close()
        m = rc.model
        ns, T, nc, nsw = cfg['ns'], cfg['T'], cfg['nc'], cfg['nsw']
        f = case['factor']
        raw = rc.load('channels.rawInd')
        if cfg.get('merged'):
            want = [v for om in case['orig_maps'] for v in om]
        else:
            want = case['cm']
        if [int(v) for v in raw] != want:
            return 'channels.rawInd = %s, the original channel maps are %s (merged map %s)' % (
                raw.tolist(), want, case['cm'])
        data = rc.rd.tpl_file.astype(float)
        wm = rc.rd.wm if rc.rd.wm is not None else np.eye(nc)
        U = np.stack([data[t] @ np.linalg.inv(wm) for t in range(T)])
        au = (U.max(axis=1) - U.min(axis=1)).max(axis=1)
        st, sc, am = case['st'], case['sc'], np.array(case['am'])
        wsa = au[st] * am * f
        if not np.allclose(rc.load('spikes.amps'), wsa, rtol=1e-5):
            return 'spikes.amps %s, expected %s' % (rc.load('spikes.amps').tolist(), wsa.tolist())
        ta = rc.load('templates.amps')
        for t in range(T):
            mem = [wsa[i] for i in range(ns) if st[i] == t]
            if not mem:
                if not np.isnan(ta[t]):
                    return 'templates.amps of unused template %d is %s' % (t, ta[t])
            elif abs(ta[t] - np.mean(mem)) > 1e-6 * max(1, abs(np.mean(mem))):
                return 'templates.amps[%d] = %s, expected %s' % (t, ta[t], np.mean(mem))
        tw, twc = rc.load('templates.waveforms'), rc.load('templates.waveformsChannels')
        tch = m.templates_channels
        pos, probes = rc.rd.pos, rc.rd.probes
        for t in range(T):
            chs = [int(v) for v in twc[t]]
            pk = int(tch[t])
            on_probe = [k for k in range(nc) if probes[k] == probes[pk]]
            dist = np.abs(pos - pos[pk]).sum(axis=1)
            if len(on_probe) >= len(chs):
                if chs[0] != pk or len(set(chs)) != len(chs) or any(k not in on_probe for k in chs):
                    return 'template %d: channels %s (peak %d, probe channels %s)' % (t, chs, pk, on_probe)
                far = max(dist[k] for k in chs)
                if any(dist[k] < far - 1e-9 for k in on_probe if k not in chs):
                    return 'template %d: channels %s are not the nearest' % (t, chs)
            mem = [wsa[i] for i in range(ns) if st[i] == t]
            if mem and au[t] > 0:
                want = U[t][:, chs] * np.mean(mem) / au[t]
                if not np.allclose(tw[t], want, rtol=1e-4, atol=1e-6):
                    return 'templates.waveforms[%d] = %s, rescaled unwhitened template is %s' % (t, tw[t].tolist(), want.tolist())
        curated = sc != st
        nclu = max(sc) + 1 if curated else T
        cch, cdep, cdur = rc.load('clusters.channels'), rc.load('clusters.depths'), rc.load('clusters.peakToTrough')
        for cl in range(nclu):
            empty = curated and cl not in sc
            if empty:
                if not (np.isnan(cdep[cl]) and np.isnan(cdur[cl])):
                    return 'empty cluster %d: depth %s duration %s' % (cl, cdep[cl], cdur[cl])
            elif abs(cdep[cl] - pos[int(cch[cl]), 1]) > 1e-9:
                return 'clusters.depths[%d] = %s, depth of its peak channel %d is %s' % (cl, cdep[cl], cch[cl], pos[int(cch[cl]), 1])
        # cluster waveforms and amplitudes: unwhitened cluster waveform (C08) times the mean stored amplitude of the
        # cluster's spikes times the unit factor; amplitude = its largest peak-to-peak value
        cw, cwc, camp = rc.load('clusters.waveforms'), rc.load('clusters.waveformsChannels'), rc.load('clusters.amps')
        cdata = np.asarray(m.sparse_clusters.data, dtype=float)
        for cl in range(nclu):
            mem = [am[i] for i in range(ns) if (sc[i] if curated else st[i]) == cl]
            if not mem:
                continue
            Ucl = cdata[cl] @ np.linalg.inv(wm)
            aucl = (Ucl.max(axis=0) - Ucl.min(axis=0)).max()
            if aucl <= 0:
                continue
            wantw = Ucl[:, [int(v) for v in cwc[cl]]] * np.mean(mem) * f
            if not np.allclose(cw[cl], wantw, rtol=1e-4, atol=1e-6):
                return 'clusters.waveforms[%d] = %s, rescaled unwhitened cluster waveform is %s' % (
                    cl, cw[cl].tolist(), wantw.tolist())
            if abs(camp[cl] - aucl * np.mean(mem) * f) > 1e-5 * max(1.0, abs(camp[cl])):
                return 'clusters.amps[%d] = %s, expected %s' % (cl, camp[cl], aucl * np.mean(mem) * f)
        sdep = rc.load('spikes.depths')
        if m.sparse_features is None:
            for i in range(ns):
                w = cdep[sc[i]]
                if np.isnan(sdep[i]) or abs(sdep[i] - w) > 1e-9:
                    return 'spikes.depths[%d] = %s, the depth of its cluster %d is %s' % (i, sdep[i], sc[i], w)
        return None
    finally:
        rc.close()


def classify(case, failure):
    return None


if __name__ == '__main__':
    sys.exit(harness.main('checks.c14'))
