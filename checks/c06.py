"""C06 Sparse feature storage is densified exactly."""
import sys
import itertools
import z3
import numpy as np

from symx import core, env, lam, harness, vfs, symnp as snp
from symx.core import SymInt, SymReal, sand, sor, snot, implies, ite

PID = 'C06'
FUNCTIONS = ['phylib/io/model.py:' + f for f in (
    'from_sparse', 'TemplateModel.get_features', 'TemplateModel.get_template_features', 'compute_features',
    '_compute_pcs', '_project_pcs')] + ['phylib/io/array.py:_index_of']
BOUNDS = {
    'quick': {'spikes': '0..2 requested of 3', 'local_channels': '1..2', 'requested_channels': '1..3',
              'trailing_dims': ['()', '(2,)'], 'templates': 2, 'pca': '3 samples x 2 channels x 2 spikes',
              'unbounded': ['data values (reals)', 'channel ids in the column tables and requests']},
    'thorough': {'spikes': '0..3 requested of 4', 'local_channels': '1..3', 'requested_channels': '1..4',
                 'trailing_dims': ['()', '(1,)', '(2,)'], 'templates': 3, 'pca': '3..4 samples x 2 channels x 3 spikes',
                 'unbounded': ['data values (reals)', 'channel ids in the column tables and requests']},
}
ASSUMPTIONS = [
    'requested channel ids are distinct and non-negative; column-table entries are >= -1 and distinct within a '
    'row apart from -1 and channels that are not requested (the sparse-storage invariant)',
    'values are claimed for stored spikes only (rows of spikes absent from a subset store are not examined)',
    'requested spike ids and the rows of the subset store are solver-enumerated orderings/subsets; data values, '
    'column tables and spike->template maps stay symbolic',
    'PCA clause: np.cov and np.linalg.eigh are unconstrained stubs; what is decided is the selection of the three '
    'leading components by eigenvalue order, the projection indices and the scatter into the requested order',
    'forms added after seeding rounds: a second from_sparse request on the same data / column-table objects (int32 table)',
]
STUBS = ['np.cov (fresh symmetric matrix)', 'np.linalg.eigh (fresh values/vectors)',
         'TemplateModel.get_waveforms (fresh waveforms) in the PCA configuration']
OUTSIDE = ['the numerical eigen-decomposition', 'float32 rounding']
WITNESS_CAP = {'quick': 30, 'thorough': 60}


def configs(tier):
    quick = tier == 'quick'
    out = []
    for ns in ((1, 2) if quick else (1, 2, 3)):
        for ncl in ((1, 2) if quick else (1, 2, 3)):
            for nreq in ((1, 2, 3) if quick else (1, 2, 3, 4)):
                for trail in ((0, 2) if quick else (0, 1, 2)):
                    if ns * ncl * nreq > (8 if quick else 18):
                        continue
                    out.append({'kind': 'from_sparse', 'ns': ns, 'ncl': ncl, 'nreq': nreq, 'trail': trail})
    out.append({'kind': 'from_sparse', 'ns': 0, 'ncl': 2, 'nreq': 2, 'trail': 0})
    # the same column table used for a second request (the caller's table must not be consumed)
    for ns, ncl in ((1, 2), (2, 2)):
        out.append({'kind': 'from_sparse', 'ns': ns, 'ncl': ncl, 'nreq': 1, 'trail': 0, 'nreq2': 2})
    NT = 3 if quick else 4
    for rows in (False, True):
        for cols in (False, True):
            for nq in ((0, 1, 2) if quick else (0, 1, 2, 3)):
                for nreq in (1, 2):
                    for si in (range(4) if rows else [None]):
                        for q0 in (range(NT) if nq >= 2 else [None]):
                            out.append({'kind': 'features', 'rows': rows, 'cols': cols, 'nq': nq, 'nreq': nreq,
                                        'NT': NT, 'stored_idx': si, 'q0': q0})
    for rows in (False, True):
        for cols in (False, True):
            for nq in ((1, 2) if quick else (1, 2, 3)):
                for si in (range(4) if rows else [None]):
                    for q0 in (range(NT) if nq >= 2 else [None]):
                        out.append({'kind': 'tfeatures', 'rows': rows, 'cols': cols, 'nq': nq, 'NT': NT,
                                    'stored_idx': si, 'q0': q0})
    for nq in (1, 2):
        for q0 in range(3):
            out.append({'kind': 'pca', 'nq': nq, 'nsw': 3, 'q0': q0})
    return out


def _reals(e, name, shape):
    a = snp._obj(shape)
    flat = []
    for idx in np.ndindex(shape):
        v = e.real('%s%s' % (name, '_'.join(map(str, idx))))
        a[idx] = v
        flat.append(v)
    if flat:
        e.prefer.append(sand(*[sand(v >= -4, v <= 4) for v in flat[:12]]))
    return snp.ndarray(a, 'float64'), flat


def _coltable(e, name, nrows, ncl, hi):
    """column table with entries in [-1, hi]; non-negative entries distinct within a row"""
    rows = []
    for r in range(nrows):
        row = [e.int('%s%d_%d' % (name, r, k), -1, hi) for k in range(ncl)]
        for a, b in itertools.combinations(row, 2):
            e.assume(sor(a != b, a == -1))
        rows.append(row)
    arr = snp.ndarray(snp._fromlist([v for row in rows for v in row], (nrows, ncl)), 'int32')
    return rows, arr


def _req(e, nreq, hi):
    req = [e.int('rq%d' % c, 0, hi) for c in range(nreq)]
    for a, b in itertools.combinations(req, 2):
        e.assume(a != b)
    return req


def _req2(e, nreq, hi):
    req = [e.int('rr%d' % c, 0, hi) for c in range(nreq)]
    for a, b in itertools.combinations(req, 2):
        e.assume(a != b)
    return req


def _dense_oracle(colrow, datafn, ch):
    """value for requested channel ch given a column row (list of ids) and datafn(k) -> element"""
    r = SymReal(0)
    for k in range(len(colrow) - 1, -1, -1):
        r = ite(colrow[k] == ch, datafn(k), r)
    return r


def run_config(cfg, e):
    pkg = env.make_pkg(record=e.functions)
    mod = pkg.load('phylib.io.model')
    Bunch = pkg.load('phylib.utils._types').Bunch
    kind = cfg['kind']

    def fn():
        vfs.reset()
        if kind == 'from_sparse':
            ns, ncl, nreq, trail = cfg['ns'], cfg['ncl'], cfg['nreq'], cfg['trail']
            shape = (ns, ncl) + ((trail,) if trail else ())
            data, flat = _reals(e, 'd', shape)
            rows, cols = _coltable(e, 'c', ns, ncl, 5)
            req = _req(e, nreq, 5)
            as_list = (ns + nreq) % 2 == 0
            chan = list(req) if as_list else snp.ndarray(snp._fromlist(req, (nreq,)), 'int64')
            req2 = _req2(e, cfg['nreq2'], 5) if cfg.get('nreq2') else None
            req1 = req
            e.case_builder = lambda ev: {'kind': kind, 'shape': list(shape), 'data': ev(flat),
                                         'cols': [ev(r) for r in rows], 'req': ev(req1),
                                         'req2': None if req2 is None else ev(req2)}
            try:
                out = snp.asarray(mod.from_sparse(data, cols, chan))
                if req2 is not None:
                    # second request on the same objects: it is the one that is checked
                    out = snp.asarray(mod.from_sparse(data, cols, snp.ndarray(snp._fromlist(req2, (len(req2),)), 'int64')))
                    req, nreq = req2, len(req2)
            except Exception as ex:
                e.fail('exception %r' % (ex,))
            e.prove(out.shape == (ns, nreq) + shape[2:], 'shape %s' % (out.shape,))
            obl = []
            for i in range(ns):
                for c in range(nreq):
                    for t in (range(trail) if trail else [None]):
                        got = out.a[(i, c) + (() if t is None else (t,))]
                        want = _dense_oracle(rows[i], lambda k: data.a[(i, k) + (() if t is None else (t,))], req[c])
                        obl.append((got == want, 'wrong value at spike %d, requested channel slot %d' % (i, c)))
            e.prove_all(obl)
            e.witness()
            return
        NT = cfg.get('NT', 3)
        T = 2
        nc = 4
        st = [e.int('st%d' % i, 0, T - 1) for i in range(NT)]
        mdl = object.__new__(mod.TemplateModel)
        mdl.spike_templates = snp.ndarray(snp._fromlist(st, (NT,)), 'int32')
        mdl.n_templates = T
        mdl.spike_waveforms = None
        scl = [e.int('scl%d' % i, 0, T - 1) for i in range(NT)]
        mdl.spike_clusters = snp.ndarray(snp._fromlist(scl, (NT,)), 'int32')     # curated: may differ from templates
        if kind in ('features', 'tfeatures'):
            ncl = 2
            npcs = 2
            if cfg['rows']:
                stored = [[0, 2], [1, 2], [0, 1, 2][:NT], [2]][cfg['stored_idx']]
            else:
                stored = list(range(NT))
            nst = len(stored)
            q = [cfg['q0'] if (i == 0 and cfg.get('q0') is not None) else e.choice('q%d' % i, list(range(NT)))
                 for i in range(cfg['nq'])]
            if len(set(q)) != len(q):
                return
            qa = snp.asarray(np.array(q, dtype=np.int64))
            rows_arr = snp.asarray(np.array(stored, dtype=np.int64)) if cfg['rows'] else None
            if kind == 'features':
                data, flat = _reals(e, 'f', (nst, ncl, npcs))
                e.prefer.insert(0, flat[0] == SymReal(z3.RealVal('1/10')))   # not representable in float32
                crow, cols = _coltable(e, 'c', T, ncl, nc) if cfg['cols'] else (None, None)
                req = _req(e, cfg['nreq'], nc)
                mdl.sparse_features = Bunch(data=data, cols=cols, rows=rows_arr)
                e.case_builder = lambda ev: {'kind': kind, 'stored': stored if cfg['rows'] else None, 'q': q,
                                             'data': ev(flat), 'cols': None if crow is None else [ev(r) for r in crow],
                                             'req': ev(req), 'st': ev(st), 'scl': ev(scl), 'NT': NT}
                try:
                    out = snp.asarray(mdl.get_features(qa, snp.ndarray(snp._fromlist(req, (len(req),)), 'int64')))
                except Exception as ex:
                    e.fail('exception %r' % (ex,))
                e.prove(out.shape == (len(q), len(req), npcs), 'shape %s' % (out.shape,))
                obl = []
                for i, sid in enumerate(q):
                    if sid not in stored:
                        continue
                    r = stored.index(sid)
                    for c in range(len(req)):
                        for p in range(npcs):
                            if crow is None:
                                colrow = list(range(ncl))
                            else:
                                colrow = [lam._select([crow[t][k] for t in range(T)], st[sid]) for k in range(ncl)]
                            want = _dense_oracle(colrow, lambda k: data.a[r, k, p], req[c])
                            obl.append((out.a[i, c, p] == want,
                                        'wrong feature for requested spike #%d (id %d), channel slot %d' % (i, sid, c)))
                e.prove_all(obl)
            else:
                data, flat = _reals(e, 'f', (nst, ncl))
                crow, cols = _coltable(e, 'c', T, ncl, T - 1) if cfg['cols'] else (None, None)
                mdl.sparse_template_features = Bunch(data=data, cols=cols, rows=rows_arr)
                e.case_builder = lambda ev: {'kind': kind, 'stored': stored if cfg['rows'] else None, 'q': q,
                                             'data': ev(flat), 'cols': None if crow is None else [ev(r) for r in crow],
                                             'st': ev(st), 'scl': ev(scl), 'NT': NT}
                try:
                    out = snp.asarray(mdl.get_template_features(qa))
                except Exception as ex:
                    e.fail('exception %r' % (ex,))
                e.prove(out.shape == (len(q), T), 'shape %s' % (out.shape,))
                obl = []
                for i, sid in enumerate(q):
                    if sid not in stored:
                        continue
                    r = stored.index(sid)
                    for c in range(T):
                        if crow is None:
                            colrow = list(range(ncl))
                        else:
                            colrow = [lam._select([crow[t][k] for t in range(T)], st[sid]) for k in range(ncl)]
                        want = _dense_oracle(colrow, lambda k: data.a[r, k], c)
                        obl.append((out.a[i, c] == want,
                                    'wrong template feature for requested spike #%d (id %d), template %d' % (i, sid, c)))
                e.prove_all(obl)
            e.witness()
            return
        # ---- PCA from extracted waveforms --------------------------------------------------
        nsw, nq = cfg['nsw'], cfg['nq']
        nch = 2
        stored = [0, 2]
        q = [cfg['q0'] if i == 0 else e.choice('q%d' % i, [0, 1, 2]) for i in range(nq)]
        if len(set(q)) != len(q):
            return
        exist = sorted(set(q) & set(stored))
        W, wflat = _reals(e, 'w', (len(exist), nsw, nch))
        covs = {}
        eig = {}
        calls = {'cov': 0, 'eigh': 0}

        def cov(x, rowvar=0):
            k = calls['cov']
            calls['cov'] += 1
            m, _ = _reals(e, 'cov%d_' % k, (nsw, nsw))
            return m

        def eigh(m):
            k = calls['eigh']
            calls['eigh'] += 1
            vals, vf = _reals(e, 'val%d_' % k, (nsw,))
            vecs, _ = _reals(e, 'vec%d_' % k, (nsw, nsw))
            eig[k] = (vf, vecs)
            return vals, vecs
        old_cov, old_eigh = snp.cov, snp.linalg.eigh
        snp.cov = cov
        snp._Linalg.eigh = staticmethod(eigh)
        try:
            mdl.sparse_features = None
            mdl.spike_waveforms = Bunch(spike_ids=snp.asarray(np.array(stored, dtype=np.int64)))
            got_ids = []

            def get_waveforms(ids, ch):
                got_ids.append([int(v) for v in snp.asarray(ids).a.tolist()])
                return W
            mdl.get_waveforms = get_waveforms
            e.case_builder = lambda ev: {'kind': kind, 'q': q, 'W': ev(wflat), 'nsw': nsw,
                                         'vals': {k: ev(v[0]) for k, v in eig.items()}}
            try:
                out = mdl.get_features(snp.asarray(np.array(q, dtype=np.int64)),
                                       snp.asarray(np.array([0, 1], dtype=np.int64)))
            except Exception as ex:
                e.fail('exception %r' % (ex,))
        finally:
            snp.cov = old_cov
            snp._Linalg.eigh = staticmethod(old_eigh)
        out = snp.asarray(out)
        e.prove(out.shape == (nq, nch, 3), 'shape %s' % (out.shape,))
        e.prove(got_ids == [exist] or (not exist and got_ids == []),
                'waveforms requested for %s, expected %s' % (got_ids, exist))
        obl = []
        for i, sid in enumerate(q):
            for k in range(nch):
                for p in range(3):
                    if sid not in exist:
                        obl.append((out.a[i, k, p] == 0, 'non-stored spike must stay zero'))
                        continue
                    l = exist.index(sid)
                    vals, vecs = eig[k]
                    # p-th leading component: its eigenvalue is >= exactly p others (ties: any consistent order)
                    cands = []
                    for j in range(nsw):
                        proj = core.ssum([vecs.a[t, j] * W.a[l, t, k] for t in range(nsw)])
                        cands.append((j, proj))
                    # the code sorts eigenvalues decreasingly; under the path condition the order is decided
                    order = sorted(range(nsw), key=lambda j: _Key(vals[j]), reverse=True)
                    obl.append((sor(*[sand(out.a[i, k, p] == proj, _rank_ok(vals, j, p)) for j, proj in cands]),
                                'feature (%d,%d,%d) is not the projection on the %d-th leading component' % (i, k, p, p)))
        e.prove_all(obl)
        e.witness()

    e.explore(fn)


class _Key(object):
    def __init__(self, v):
        self.v = v

    def __lt__(self, o):
        return bool(self.v < o.v)


def _rank_ok(vals, j, p):
    """eigenvalue j can be at position p of a decreasing order: #greater <= p <= #greater-or-equal - 1"""
    n = len(vals)
    gt = core.ssum([ite(vals[k] > vals[j], 1, 0) for k in range(n) if k != j])
    ge = core.ssum([ite(vals[k] >= vals[j], 1, 0) for k in range(n) if k != j])
    return sand(gt <= p, p <= ge)


# ------------------------------------------------------------------------------------------

def replay(case):
    from symx.loader import real_phylib
    real_phylib()
    from phylib.io import model as mod
    from phylib.utils import Bunch
    kind = case['kind']
    if kind == 'from_sparse':
        shape = tuple(case['shape'])
        data = np.array(case['data'], dtype=np.float64).reshape(shape)
        cols = np.array(case['cols'], dtype=np.int32).reshape(shape[:2])
        req = case['req']
        cols0 = cols.copy()
        try:
            out = mod.from_sparse(data, cols, np.array(req, dtype=np.int64))
            if case.get('req2') is not None:
                req = case['req2']
                out = mod.from_sparse(data, cols, np.array(req, dtype=np.int64))
                cols = cols0
        except Exception as ex:
            return 'from_sparse raised %r' % (ex,)
        want = np.zeros((shape[0], len(req)) + shape[2:])
        for i in range(shape[0]):
            for c, ch in enumerate(req):
                for k in range(shape[1]):
                    if cols[i, k] == ch:
                        want[i, c] = data[i, k]
        return None if out.shape == want.shape and np.array_equal(out, want) else \
            'from_sparse(data=%s, cols=%s, channels=%s) = %s, expected %s' % (
                data.tolist(), cols.tolist(), req, out.tolist(), want.tolist())
    if kind in ('features', 'tfeatures'):
        NT, T, ncl = case['NT'], 2, 2
        st = case['st']
        stored = case['stored'] if case['stored'] is not None else list(range(NT))
        q = case['q']
        mdl = object.__new__(mod.TemplateModel)
        mdl.spike_templates = np.array(st, dtype=np.int32)
        mdl.spike_clusters = np.array(case.get('scl', st), dtype=np.int32)
        mdl.template_ids = np.unique(mdl.spike_templates)
        mdl.n_templates = T
        mdl.spike_waveforms = None
        rows = np.array(stored, dtype=np.int64) if case['stored'] is not None else None
        cols = None if case['cols'] is None else np.array(case['cols'], dtype=np.int32)
        if kind == 'features':
            data = np.array(case['data'], dtype=np.float64).reshape(len(stored), ncl, 2)
            mdl.sparse_features = Bunch(data=data, cols=cols, rows=rows)
            req = case['req']
            try:
                out = mdl.get_features(np.array(q, dtype=np.int64), np.array(req, dtype=np.int64))
            except Exception as ex:
                return 'get_features raised %r' % (ex,)
            if out.shape != (len(q), len(req), 2):
                return 'shape %s' % (out.shape,)
            for i, sid in enumerate(q):
                if sid not in stored:
                    continue
                r = stored.index(sid)
                colrow = list(range(ncl)) if cols is None else list(cols[st[sid]])
                for c, ch in enumerate(req):
                    want = data[r, colrow.index(ch)] if ch in colrow else np.zeros(2)
                    if not np.array_equal(out[i, c], want):
                        return 'get_features(spikes=%s, channels=%s)[%d,%d] = %s, stored value is %s (store rows %s)' % (
                            q, req, i, c, out[i, c].tolist(), want.tolist(), case['stored'])
            return None
        data = np.array(case['data'], dtype=np.float64).reshape(len(stored), ncl)
        mdl.sparse_template_features = Bunch(data=data, cols=cols, rows=rows)
        try:
            out = mdl.get_template_features(np.array(q, dtype=np.int64))
        except Exception as ex:
            return 'get_template_features(%s) raised %r (store rows %s)' % (q, ex, case['stored'])
        if out.shape != (len(q), T):
            return 'shape %s' % (out.shape,)
        for i, sid in enumerate(q):
            if sid not in stored:
                continue
            r = stored.index(sid)
            colrow = list(range(ncl)) if cols is None else list(cols[st[sid]])
            for c in range(T):
                want = data[r, colrow.index(c)] if c in colrow else 0.0
                if out[i, c] != want:
                    return 'get_template_features(%s)[%d,%d] = %s, stored value is %s (store rows %s)' % (
                        q, i, c, out[i, c], want, case['stored'])
        return None
    if kind == 'pca':
        # real eigendecomposition: check the bookkeeping around it with real NumPy
        nsw, nch = case['nsw'], 2
        stored = [0, 2]
        q = case['q']
        exist = sorted(set(q) & set(stored))
        W = np.array(case['W'], dtype=np.float64).reshape(len(exist), nsw, nch)
        mdl = object.__new__(mod.TemplateModel)
        mdl.sparse_features = None
        mdl.spike_waveforms = Bunch(spike_ids=np.array(stored, dtype=np.int64))
        mdl.get_waveforms = lambda ids, ch: W
        try:
            out = mdl.get_features(np.array(q, dtype=np.int64), np.array([0, 1], dtype=np.int64))
        except Exception as ex:
            return 'get_features (PCA path) raised %r for spikes %s (stored %s)' % (ex, q, stored)
        if len(exist) == 0:
            return None if out.shape == (len(q), nch, 3) and not np.any(out) else 'non-stored spikes must stay zero'
        pcs = mod._compute_pcs(W, 3)
        for i, sid in enumerate(q):
            for k in range(nch):
                want = np.zeros(3) if sid not in exist else np.array(
                    [np.dot(pcs[p, :, k], W[exist.index(sid), :, k]) for p in range(3)])
                if not np.allclose(out[i, k], want, rtol=1e-4, atol=1e-5):
                    return 'PCA features of requested spike #%d wrong: %s vs %s' % (i, out[i, k], want)
        return None
    raise ValueError(kind)


def classify(case, failure):
    if case.get('kind') == 'tfeatures' and case.get('stored') is not None:
        return 'C06-template-features-row-table'
    return None


if __name__ == '__main__':
    sys.exit(harness.main('checks.c06'))
