"""C09 Amplitude, depth, duration and peak-channel summaries follow their definitions."""
import sys
import fractions
import itertools
import z3
import numpy as np

from symx import core, env, lam, harness, vfs, symnp as snp
from symx.core import SymInt, SymReal, sand, sor, snot, implies, ite, ssum
from checks import models

PID = 'C09'
FUNCTIONS = ['phylib/io/model.py:' + f for f in (
    'TemplateModel.get_amplitudes_true', 'TemplateModel._amplitudes', 'TemplateModel.templates_amplitudes',
    'TemplateModel.clusters_amplitudes', 'TemplateModel._channels', 'TemplateModel.templates_channels',
    'TemplateModel.clusters_channels', 'TemplateModel.templates_probes', 'TemplateModel._waveform_durations',
    'TemplateModel.templates_waveforms_durations', 'TemplateModel.clusters_waveforms_durations',
    'TemplateModel.get_depths')]
BOUNDS = {
    'quick': {'spikes': '1..4', 'templates/clusters': '2..3', 'channels': '2..3', 'waveform_samples': '2..3',
              'unbounded': ['stored spike amplitudes (reals)', 'template values in _channels/_waveform_durations']},
    'thorough': {'spikes': '1..5', 'templates/clusters': '2..4', 'channels': '2..3', 'waveform_samples': '2..3',
                 'unbounded': ['stored spike amplitudes (reals)', 'template values in _channels/_waveform_durations']},
}
ASSUMPTIONS = [
    'get_amplitudes_true: templates and whitening from a fixed concrete rational set (so the per-template '
    'arbitrary-unit amplitude is concrete and the chain is linear in the symbolic stored amplitudes); spike->'
    'template/cluster ids in [0,T) symbolic (solver-enumerated by the gathers), any id may be unused',
    'unit factor and sampling rate are concrete rationals from a small set',
    '_channels/_waveform_durations: symbolic real template values; a peak channel/sample is the first index '
    'attaining the extremum (np.argmax/np.argmin definition)',
    'get_depths: features from a concrete set (incl. rows without positive part -> NaN), symbolic spike->template '
    'map and column table; one batch',
    'float arithmetic is exact rational arithmetic; NaN only arises from 0/0 of concrete zeros',
    'forms added after seeding rounds: a second get_amplitudes_true call on the same model; sampling rates 1000, 30000 and 2500 Hz',
    'round 8: get_depths batching -- the loader re-binds the literal `nbatch = 50000` of get_depths to 2, 3 or 4 (AST '
    'rewrite of that one assignment, regenerated from the current source; if the source has no such literal nothing is '
    'rewritten) and spike counts k*nb + r with r in {0, 1, ...} are explored, on the assumption that get_depths is '
    'parametric in its batch size (these configurations use a concrete column table); a counterexample is replayed on the UNMODIFIED code with a real-size input '
    '(k*50000 + r spikes)',
    'round 7: a lone spike with positive features (finite depth expected); a NaN depth where a finite one is expected is a failed obligation',
]
STUBS = []
OUTSIDE = ['float rounding', 'get_depths with the real batch size of 50000 on the symbolic side (only replays use it)', 'symbolic whitening']
WITNESS_CAP = {'quick': 40, 'thorough': 80}


def configs(tier):
    quick = tier == 'quick'
    out = []
    for use in ('templates', 'clusters'):
        for n in ((1, 2, 3, 4) if quick else (1, 2, 3, 4, 5)):
            for T in ((2, 3) if quick else (2, 3, 4)):
                for wmi in ('I', 'nonsym'):
                    if n >= 4 and (T > 2 + (0 if quick else 1) or wmi == 'I'):
                        continue
                    if n == 5 and T > 2:
                        continue
                    f = [1.0, 2.5, 0.5][(n + T) % 3]
                    out.append({'kind': 'amps_true', 'use': use, 'n': n, 'T': T, 'nc': 2 + (n + T) % 2, 'wmi': wmi,
                                'factor': f, 'variant': (n + T) % 2})
    for n in (1, 2, 3):
        for T in (2, 3):
            out.append({'kind': 'amplitudes', 'n': n, 'T': T})
    for nsw in (2, 3):
        for nc in (2, 3):
            for T in (1, 2):
                out.append({'kind': 'channels', 'nsw': nsw, 'nc': nc, 'T': T, 'rate': [1000.0, 30000.0, 2500.0][(nsw + nc + T) % 3]})
    for n in ((1, 2, 3) if quick else (1, 2, 3, 4)):
        for variant in (0, 1, 2):
            if variant == 2 and n > 2:
                continue
            out.append({'kind': 'depths', 'n': n, 'variant': variant})
    # batching of get_depths with the batch-size literal scaled down (see ASSUMPTIONS): n = k*nb + r
    for nb, n in (((2, 3), (2, 4), (2, 5), (3, 4)) if quick else ((2, 2), (2, 3), (2, 4), (2, 5), (3, 3), (3, 4), (3, 6), (4, 5))):
        for variant in ((2,) if quick else (0, 2)):
            out.append({'kind': 'depths', 'n': n, 'variant': variant, 'nb': nb})
    return out


def _tpl(variant, T, nsw, nc):
    rng = np.random.RandomState(7 + variant)
    d = rng.randint(-3, 4, size=(T, nsw, nc)).astype(np.float64)
    for t in range(T):
        d[t, 0, t % nc] += 3
    if variant == 1:
        d[T - 1] = 0.0          # an all-zero template: arbitrary-unit amplitude 0
        if T >= 2 and nc >= 2:
            d[0, :, 1] = d[0, :, 0]  # equal-amplitude channels
    return d


def _feat(variant, n, ncl):
    rng = np.random.RandomState(31 + variant)
    f = rng.randint(-2, 4, size=(n, ncl, 2)).astype(np.float64)
    if variant == 1 and n >= 1:
        f[0, :, 0] = [-1.0, 0.0][:ncl] + [0.0] * (ncl - 2)   # positive part vanishes -> NaN depth
    if variant == 2:
        f[:, :, 0] = np.abs(f[:, :, 0]) + 1.0                 # every spike has a finite depth (also a lone spike)
    return f


NBATCH_KEY = ('phylib.io.model', 'get_depths', 'nbatch')


def run_config(cfg, e):
    if cfg.get('nb'):
        pkg = env.make_pkg(record=e.functions, literal_overrides={NBATCH_KEY: cfg['nb']})
    else:
        pkg = env.make_pkg(record=e.functions)
    kind = cfg['kind']
    e.concretize_shapes = True

    def fn():
        Bunch = pkg.load('phylib.utils._types').Bunch
        if kind == 'amps_true':
            n, T, nc, nsw = cfg['n'], cfg['T'], cfg['nc'], 2
            data = _tpl(cfg['variant'], T, nsw, nc)
            m, _ = models.build_sym_model(pkg, nc, 'line', cfg['wmi'], 12)
            sp = [e.int('sp%d' % i, 0, T - 1) for i in range(n)]
            am = [e.real('amp%d' % i) for i in range(n)]
            for a in am:
                e.prefer.append(sor(*[a == SymReal(z3.RealVal(k)) for k in (1, 2, 3, 0)]))
            spk = snp.ndarray(snp._fromlist(sp, (n,)), 'int32')
            m.amplitudes = snp.ndarray(snp._fromlist(am, (n,)), 'float64')
            sparse = Bunch(data=snp.asarray(data), cols=None)
            if cfg['use'] == 'clusters':
                m.sparse_clusters, m.spike_clusters, m.n_clusters = sparse, spk, T
                m.sparse_templates, m.spike_templates, m.n_templates = None, None, 0
            else:
                m.sparse_templates, m.spike_templates, m.n_templates = sparse, spk, T
                m.sparse_clusters, m.spike_clusters, m.n_clusters = None, None, 0
            e.case_builder = lambda ev: dict(cfg, sp=ev(sp), am=ev(am))
            f = cfg['factor']
            try:
                sa, tw, ta = m.get_amplitudes_true(f, use=cfg['use'])
            except Exception as ex:
                e.fail('exception %r' % (ex,))
            sa, tw, ta = snp.asarray(sa), snp.asarray(tw), snp.asarray(ta)
            wmi = models.wmi_matrix(cfg['wmi'], nc)
            U = np.stack([data[t] @ wmi for t in range(T)])
            au = (U.max(axis=1) - U.min(axis=1)).max(axis=1)
            e.prove_all([(sa.shape == (n,), 'spike amplitudes shape %s' % (sa.shape,)),
                         (tw.shape == (T, nsw, nc), 'rescaled templates shape %s' % (tw.shape,)),
                         (ta.shape == (T,), 'per-%s amplitudes have %s entries for %d ids' % (
                             cfg['use'], ta.shape, T))])
            obl = []
            for i in range(n):
                want = SymReal(0)
                for t in range(T):
                    want = ite(sp[i] == t, am[i] * float(au[t]) * f, want)
                obl.append((sa.a[i] == want, 'scaled amplitude of spike %d' % i))
            e.prove_all(obl)
            obl = []
            for t in range(T):
                cnt = core.eng().concretize(core.term_of(ssum([ite(s == t, 1, 0) for s in sp])))
                got = ta.a[t]
                if cnt == 0:
                    obl.append((not isinstance(got, core.Sym) and got != got, 'id %d without spikes is not NaN (%r)' % (t, got)))
                    continue
                tot = ssum([ite(s == t, a, SymReal(0)) for s, a in zip(sp, am)])
                obl.append((got * cnt == tot * float(au[t]) * f, 'mean amplitude of id %d' % t))
                # rescaled template has exactly that peak amplitude (au > 0) and is U * mean / au
                if au[t] > 0:
                    for s_ in range(nsw):
                        for c in range(nc):
                            obl.append((tw.a[t, s_, c] * cnt * float(au[t]) == tot * float(au[t]) * f * float(U[t, s_, c]),
                                        'rescaled template %d' % t))
            e.prove_all(obl)
            e.witness()
        elif kind == 'amplitudes':
            n, T = cfg['n'], cfg['T']
            m, _ = models.build_sym_model(pkg, 2, 'line', 'I', 12)
            st = [e.int('st%d' % i, 0, T - 1) for i in range(n)]
            sc = [e.int('sc%d' % i, 0, T) for i in range(n)]
            am = [e.real('amp%d' % i) for i in range(n)]
            for a in am:
                e.prefer.append(sor(*[a == SymReal(z3.RealVal(k)) for k in (1, 2, 3, 0)]))
            m.spike_templates = snp.ndarray(snp._fromlist(st, (n,)), 'int32')
            m.spike_clusters = snp.ndarray(snp._fromlist(sc, (n,)), 'int32')
            m.amplitudes = snp.ndarray(snp._fromlist(am, (n,)), 'float64')
            e.case_builder = lambda ev: dict(cfg, st=ev(st), sc=ev(sc), am=ev(am))
            try:
                ta = snp.asarray(m.templates_amplitudes).a.tolist()
                ca = snp.asarray(m.clusters_amplitudes).a.tolist()
                tids = [int(v) for v in snp.unique(m.spike_templates).a.tolist()]
                cids = [int(v) for v in snp.unique(m.spike_clusters).a.tolist()]
            except Exception as ex:
                e.fail('exception %r' % (ex,))
            obl = [(len(ta) == len(tids), 'templates_amplitudes length'), (len(ca) == len(cids), 'clusters_amplitudes length')]
            for ids, res, lab in ((tids, ta, st), (cids, ca, sc)):
                for k, r in zip(ids, res):
                    cnt = core.eng().concretize(core.term_of(ssum([ite(s == k, 1, 0) for s in lab])))
                    tot = ssum([ite(s == k, a, SymReal(0)) for s, a in zip(lab, am)])
                    obl.append((r * cnt == tot, 'mean amplitude of id %d' % k))
            e.prove_all(obl)
            e.witness()
        elif kind == 'channels':
            nsw, nc, T, rate = cfg['nsw'], cfg['nc'], cfg['T'], cfg['rate']
            data, flat = models.sym_reals(e, 'w', (T, nsw, nc))
            m, _ = models.build_sym_model(pkg, nc, 'line', 'I', 12)
            m.sample_rate = rate
            m.sparse_templates = Bunch(data=data, cols=None)
            m.sparse_clusters = m.sparse_templates
            m.channel_probes = snp.asarray(np.array([c % 2 for c in range(nc)], dtype=np.int32))
            e.case_builder = lambda ev: dict(cfg, data=ev(flat))
            try:
                tc = snp.asarray(m.templates_channels).a.tolist()
                cc = snp.asarray(m.clusters_channels).a.tolist()
                tp = snp.asarray(m.templates_probes).a.tolist()
                du = snp.asarray(m.templates_waveforms_durations).a.tolist()
                cu = snp.asarray(m.clusters_waveforms_durations).a.tolist()
            except Exception as ex:
                e.fail('exception %r' % (ex,))
            obl = [(len(tc) == T and len(du) == T and len(tp) == T, 'lengths')]
            for t in range(T):
                tw = [[data.a[t, s, c] for c in range(nc)] for s in range(nsw)]
                amp = models.ptp_terms(tw)
                # first index attaining the maximum
                pk = 0
                mx = amp[0]
                for c in range(1, nc):
                    pk = ite(amp[c] > mx, c, pk)
                    mx = ite(amp[c] > mx, amp[c], mx)
                obl.append((tc[t] == pk, 'peak channel of template %d' % t))
                obl.append((cc[t] == pk, 'peak channel of cluster %d' % t))
                obl.append((tp[t] == ite(pk % 2 == 0, 0, 1), 'probe of template %d' % t))
                # duration on the peak channel: (argmax_t - argmin_t) / rate * 1e3
                for c in range(nc):
                    imax = imin = 0
                    vmax = vmin = tw[0][c]
                    for s in range(1, nsw):
                        imax = ite(tw[s][c] > vmax, s, imax)
                        vmax = ite(tw[s][c] > vmax, tw[s][c], vmax)
                        imin = ite(tw[s][c] < vmin, s, imin)
                        vmin = ite(tw[s][c] < vmin, tw[s][c], vmin)
                    want = core.SymReal(z3.ToReal(core.term_of(imax - imin))) / rate * 1e3
                    obl.append((implies(pk == c, sand(du[t] == want, cu[t] == want)),
                                'peak-to-trough duration of template %d' % t))
            e.prove_all(obl)
            e.witness()
        elif kind == 'depths':
            n, T, ncl, nc = cfg['n'], 2, 2, 4
            feat = _feat(cfg['variant'], n, ncl)
            m, _ = models.build_sym_model(pkg, nc, 'zigzag', 'I', 12)
            st = [e.int('st%d' % i, 0, T - 1) for i in range(n)]
            if cfg.get('nb'):   # batching configs: concrete column table, symbolic spike->template map
                cols = [[(t + 2 * k + 1) % nc for k in range(ncl)] for t in range(T)]
            else:
                cols = [[e.int('col%d_%d' % (t, k), 0, nc - 1) for k in range(ncl)] for t in range(T)]
            m.spike_templates = snp.ndarray(snp._fromlist(st, (n,)), 'int32')
            scl = [e.int('scl%d' % i, 0, T - 1) for i in range(n)]
            m.spike_clusters = snp.ndarray(snp._fromlist(scl, (n,)), 'int32')
            m.spike_times = snp.asarray(np.arange(n, dtype=np.float64))
            m.n_spikes = n
            m.sparse_features = Bunch(data=snp.asarray(feat),
                                      cols=snp.ndarray(snp._fromlist([v for r in cols for v in r], (T, ncl)), 'int32'),
                                      rows=None)
            e.case_builder = lambda ev: dict(cfg, st=ev(st), scl=ev(scl), cols=[ev(r) for r in cols],
                                             real_nbatch=pkg.literals.get(NBATCH_KEY))
            try:
                d = snp.asarray(m.get_depths()).a.tolist()
            except Exception as ex:
                e.fail('exception %r' % (ex,))
            ypos = [p[1] for p in models.GEOMS['zigzag'](nc)[0]]
            obl = [(len(d) == n, 'length')]
            for i in range(n):
                w = [max(feat[i, k, 0], 0.0) ** 2 for k in range(ncl)]
                tot = sum(w)
                if tot == 0:
                    obl.append((not isinstance(d[i], core.Sym) and d[i] != d[i], 'depth of spike %d must be NaN' % i))
                    continue
                want = SymReal(0)
                for k in range(ncl):
                    yk = SymReal(0)
                    for t in range(T):
                        for c in range(nc):
                            yk = ite(sand(st[i] == t, cols[t][k] == c), ypos[c], yk)
                    want = want + yk * (w[k] / tot)
                if not isinstance(d[i], core.Sym) and d[i] != d[i]:
                    obl.append((False, 'depth of spike %d is NaN although it has positive features' % i))
                    continue
                diff = d[i] - want
                obl.append((sand(diff <= 1e-9, diff >= -1e-9), 'depth of spike %d' % i))
            e.prove_all(obl)
            e.witness()

    e.explore(fn)


def replay(case):
    from symx.loader import real_phylib
    real_phylib()
    from phylib.utils import Bunch
    kind = case['kind']
    if kind == 'amps_true':
        n, T, nc, nsw = case['n'], case['T'], case['nc'], 2
        data = _tpl(case['variant'], T, nsw, nc)
        m = models.build_real_model(nc, 'line', case['wmi'], 12)
        spk = np.array(case['sp'], dtype=np.int32)
        m.amplitudes = np.array(case['am'], dtype=np.float64)
        sparse = Bunch(data=data, cols=None)
        if case['use'] == 'clusters':
            m.sparse_clusters, m.spike_clusters, m.n_clusters = sparse, spk, T
            m.sparse_templates, m.spike_templates, m.n_templates = None, None, 0
        else:
            m.sparse_templates, m.spike_templates, m.n_templates = sparse, spk, T
            m.sparse_clusters, m.spike_clusters, m.n_clusters = None, None, 0
        f = case['factor']
        try:
            with np.errstate(all='ignore'):
                sa, tw, ta = m.get_amplitudes_true(f, use=case['use'])
        except Exception as ex:
            return 'get_amplitudes_true(use=%s) raised %r with spike ids %s of %d ids' % (case['use'], ex, case['sp'], T)
        wmi = models.wmi_matrix(case['wmi'], nc)
        U = np.stack([data[t] @ wmi for t in range(T)])
        au = (U.max(axis=1) - U.min(axis=1)).max(axis=1)
        wsa = au[spk] * m.amplitudes * f
        if sa.shape != (n,) or not np.allclose(sa, wsa):
            return 'spike amplitudes %s, expected %s' % (sa.tolist(), wsa.tolist())
        if ta.shape != (T,):
            return 'per-id amplitudes have shape %s for %d ids' % (ta.shape, T)
        for t in range(T):
            mem = [wsa[i] for i in range(n) if case['sp'][i] == t]
            if not mem:
                if not np.isnan(ta[t]):
                    return 'id %d has no spikes but amplitude %s (expected NaN)' % (t, ta[t])
                continue
            if abs(ta[t] - np.mean(mem)) > 1e-9 * max(1, abs(np.mean(mem))):
                return 'mean amplitude of id %d is %s, expected %s' % (t, ta[t], np.mean(mem))
            if au[t] > 0:
                ptp = (tw[t].max(axis=0) - tw[t].min(axis=0)).max()
                if abs(ptp - abs(np.mean(mem))) > 1e-9 * max(1, abs(np.mean(mem))) or \
                        not np.allclose(tw[t], U[t] * np.mean(mem) / au[t]):
                    return 'rescaled template %d has peak amplitude %s, expected %s' % (t, ptp, np.mean(mem))
        return None
    if kind == 'amplitudes':
        m = models.build_real_model(2, 'line', 'I', 12)
        m.spike_templates = np.array(case['st'], dtype=np.int32)
        m.spike_clusters = np.array(case['sc'], dtype=np.int32)
        m.amplitudes = np.array(case['am'], dtype=np.float64)
        try:
            ta, ca = m.templates_amplitudes, m.clusters_amplitudes
        except Exception as ex:
            return 'raised %r' % (ex,)
        for lab, res in ((case['st'], ta), (case['sc'], ca)):
            ids = sorted(set(lab))
            want = [np.mean([a for a, l in zip(case['am'], lab) if l == k]) for k in ids]
            if len(res) != len(want) or not np.allclose(res, want):
                return 'mean amplitudes %s, expected %s' % (list(res), want)
        return None
    if kind == 'channels':
        nsw, nc, T, rate = case['nsw'], case['nc'], case['T'], case['rate']
        data = np.array(case['data'], dtype=np.float64).reshape(T, nsw, nc)
        m = models.build_real_model(nc, 'line', 'I', 12)
        m.sample_rate = rate
        m.sparse_templates = Bunch(data=data, cols=None)
        m.sparse_clusters = m.sparse_templates
        m.channel_probes = np.array([c % 2 for c in range(nc)], dtype=np.int32)
        try:
            tc, cc, tp = m.templates_channels, m.clusters_channels, m.templates_probes
            du, cu = m.templates_waveforms_durations, m.clusters_waveforms_durations
        except Exception as ex:
            return 'raised %r' % (ex,)
        for t in range(T):
            amp = data[t].max(axis=0) - data[t].min(axis=0)
            pk = int(np.argmax(amp))
            if int(tc[t]) != pk or int(cc[t]) != pk or int(tp[t]) != pk % 2:
                return 'peak channel/probe of template %d: %s %s %s, expected channel %d' % (t, tc[t], cc[t], tp[t], pk)
            want = (int(np.argmax(data[t][:, pk])) - int(np.argmin(data[t][:, pk]))) / rate * 1e3
            if abs(du[t] - want) > 1e-9 or abs(cu[t] - want) > 1e-9:
                return 'duration of template %d: %s, expected %s ms' % (t, du[t], want)
        return None
    if kind == 'depths':
        n, T, ncl, nc = case['n'], 2, 2, 4
        feat = _feat(case['variant'], n, ncl)
        case = dict(case)
        if case.get('nb') and case.get('real_nbatch'):
            # the symbolic run used batch size nb; the real code has real_nbatch: spike b*nb+p of the
            # small case becomes spike b*R+p of a real-size one, the rest of each batch repeats its first spike
            nb, R = case['nb'], int(case['real_nbatch'])
            src = []
            for b in range((n + nb - 1) // nb):
                small = list(range(b * nb, min((b + 1) * nb, n)))
                src += small + ([small[0]] * (R - nb) if len(small) == nb else [])
            src = np.array(src)
            feat = feat[src]
            scl = case.get('scl', case['st'])
            case['scl'] = [scl[i] for i in src]
            case['st'] = [case['st'][i] for i in src]
            n = len(src)
        m = models.build_real_model(nc, 'zigzag', 'I', 12)
        m.spike_templates = np.array(case['st'], dtype=np.int32)
        m.spike_clusters = np.array(case.get('scl', case['st']), dtype=np.int32)
        m.spike_times = np.arange(n, dtype=np.float64)
        m.n_spikes = n
        cols = np.array(case['cols'], dtype=np.int32)
        m.sparse_features = Bunch(data=feat, cols=cols, rows=None)
        try:
            with np.errstate(all='ignore'):
                d = m.get_depths()
        except Exception as ex:
            return 'get_depths raised %r' % (ex,)
        ypos = np.array([p[1] for p in models.GEOMS['zigzag'](nc)[0]])
        for i in range(n):
            w = np.maximum(feat[i, :, 0], 0) ** 2
            if w.sum() == 0:
                if not np.isnan(d[i]):
                    return 'depth of spike %d is %s, expected NaN' % (i, d[i])
                continue
            want = (ypos[cols[case['st'][i]]] * w).sum() / w.sum()
            if np.isnan(d[i]) or abs(d[i] - want) > 1e-9:
                return 'depth of spike %d is %s, expected %s' % (i, d[i], want)
        return None
    raise ValueError(kind)


def classify(case, failure):
    return None


if __name__ == '__main__':
    sys.exit(harness.main('checks.c09'))
