"""C07 Spike-cluster index utilities partition the spikes."""
import sys
import z3
import numpy as np

from symx import core, env, lam, harness, vfs, symnp as snp
from symx.core import SymInt, SymReal, sand, sor, snot, implies, ite, ssum

PID = 'C07'
FUNCTIONS = ['phylib/io/array.py:' + f for f in (
    '_spikes_per_cluster', '_spikes_in_clusters', '_unique', '_index_of', '_flatten_per_cluster',
    'grouped_mean')] + ['phylib/utils/_types.py:_as_array',
                        'phylib/io/model.py:TemplateModel.get_cluster_spikes',
                        'phylib/io/model.py:TemplateModel.get_template_spikes',
                        'phylib/io/model.py:TemplateModel.get_template_counts']
BOUNDS = {
    'quick': {'n_spikes': '1..4', 'alphabet_for_bincount_helpers': 5, 'requested_clusters': '0..3',
              'dtypes': ['int32', 'int64', 'uint16', 'uint32'],
              'unbounded': ['cluster ids in _spikes_per_cluster/_spikes_in_clusters/_index_of', 'spike ids',
                            'grouped_mean values (reals)']},
    'thorough': {'n_spikes': '1..6', 'alphabet_for_bincount_helpers': 7, 'requested_clusters': '0..3',
                 'dtypes': ['int32', 'int64', 'uint16', 'uint32'],
                 'unbounded': ['cluster ids in _spikes_per_cluster/_spikes_in_clusters/_index_of', 'spike ids',
                               'grouped_mean values (reals)']},
}
ASSUMPTIONS = [
    'cluster ids are non-negative and fit their dtype; ids of bincount-based helpers (_unique, grouped_mean, '
    'get_template_counts) come from the alphabet [0, V) because their output length is max+1',
    'supplied spike-id vectors are strictly increasing; _index_of arguments are members of the lookup table and '
    'the lookup has distinct non-negative entries (its documented precondition)',
    'integer overflow of signed dtypes is outside the model; unsigned wrap-around is modelled',
    'float arithmetic is exact rational arithmetic (grouped_mean)',
    "forms added after seeding rounds: a 21-id request over a sparse id alphabet with 40 fixed + 2 symbolic spikes (NumPy's sort-based membership branch: decided by the witness replays only); int8/uint8/int16 quantities in grouped_mean",
    'round 8: _index_of also with the lookup form from_sparse uses (a trailing -1 sentinel) and -1 among the arguments, which must map to the sentinel position',
]
STUBS = []
OUTSIDE = ['vectors longer than the bound', 'float rounding in grouped_mean']
WITNESS_CAP = {'quick': 30, 'thorough': 60}
DTYPES = ['int32', 'int64', 'uint16', 'uint32']


def configs(tier):
    N = 4 if tier == 'quick' else 6
    V = 5 if tier == 'quick' else 7
    out = []
    for n in range(1, N + 1):
        for dt in DTYPES:
            if n >= 5 and dt not in ('int32', 'uint32'):
                continue
            for ids in (False, True):
                if n >= 5 and ids:
                    continue
                out.append({'kind': 'spc', 'n': n, 'dtype': dt, 'ids': ids})
    for n in range(1, min(N, 5) + 1):
        for nreq in range(0, 4):
            out.append({'kind': 'sic', 'n': n, 'nreq': nreq, 'dtype': DTYPES[(n + nreq) % 4]})
    # a long request over a sparse id alphabet (NumPy's sort-based membership test), two symbolic spikes
    out.append({'kind': 'sic', 'n': 2, 'nreq': 1, 'dtype': 'int64',
                'fixed_sc': [1000 * (i // 2) for i in range(40)],
                'fixed_req': [1000 * k for k in range(0, 20, 2)] + [500 + 1000 * k for k in range(10)]})
    for n in range(0, min(N, 5) + 1):
        out.append({'kind': 'unique', 'n': n, 'V': V, 'dtype': DTYPES[n % 4]})
    for nl in range(1, 5):
        for na in range(0, 4):
            out.append({'kind': 'index_of', 'nl': nl, 'na': na})
    # the form from_sparse uses: lookup with a trailing -1 sentinel, -1 among the arguments (round 8)
    for nl in range(1, 4):
        for na in range(1, 4):
            out.append({'kind': 'index_of', 'nl': nl, 'na': na, 'sentinel': True})
    for n in range(1, (4 if tier == 'quick' else 5)):
        out.append({'kind': 'grouped_mean', 'n': n, 'V': 4 if tier == 'quick' else 5, 'dtype': DTYPES[n % 4]})
    for n, vdt in ((2, 'int8'), (3, 'uint8'), (2, 'int16')):
        out.append({'kind': 'grouped_mean', 'n': n, 'V': 3, 'dtype': 'int32', 'vdtype': vdt})
    for n in range(1, (4 if tier == 'quick' else 5)):
        out.append({'kind': 'model', 'n': n, 'T': 3, 'dtype': DTYPES[n % 4]})
    for n in range(1, 4):
        out.append({'kind': 'flatten', 'n': n})
    return out


def _hi(dt):
    return int(np.iinfo(dt).max) if np.dtype(dt).itemsize < 8 else 2 ** 40


def _vec(e, name, n, dt, hi=None):
    hi = _hi(dt) if hi is None else hi
    xs = [e.int('%s%d' % (name, i), 0, hi) for i in range(n)]
    for x in xs:
        e.prefer.append(x <= 9)
    return xs, snp.ndarray(snp._fromlist([x for x in xs], (n,)), dt)


def run_config(cfg, e):
    kind = cfg['kind']

    def fn():
        vfs.reset()
        pkg = env.make_pkg(record=e.functions)
        arr = pkg.load('phylib.io.array')
        if kind == 'spc':
            n, dt = cfg['n'], cfg['dtype']
            xs, sc = _vec(e, 'c', n, dt)
            if cfg['ids']:
                ids = []
                prev = None
                for i in range(n):
                    v = e.int('id%d' % i, 0)
                    if prev is not None:
                        e.assume(v > prev)
                    prev = v
                    ids.append(v)
                e.prefer.append(ids[-1] <= 20)
                idarr = snp.ndarray(snp._fromlist(ids, (n,)), 'int64')
            else:
                ids = list(range(n))
                idarr = None
            e.case_builder = lambda ev: {'kind': kind, 'sc': ev(xs), 'dtype': dt,
                                         'ids': ev(ids) if cfg['ids'] else None}
            try:
                d = arr._spikes_per_cluster(sc, idarr)
                keys = list(d.keys())
                vals = [list(snp.asarray(v).a.tolist()) for v in d.values()]
            except Exception as ex:
                e.fail('exception %r' % (ex,))
            e.prove(sum(len(v) for v in vals) == n, 'groups do not have n spikes in total')
            for a in range(len(keys)):
                for b in range(a + 1, len(keys)):
                    e.prove(keys[a] != keys[b], 'duplicate cluster key')
            for v in vals:
                e.prove(len(v) >= 1, 'empty group')
                for x, y in zip(v[:-1], v[1:]):
                    e.prove(x < y, 'group not strictly increasing')
            for p in range(n):
                e.prove(sor(*[sand(k == xs[p], sor(*[m == ids[p] for m in v])) for k, v in zip(keys, vals)]),
                        'spike %d is not in the group of its cluster' % p)
            e.witness()
        elif kind == 'sic':
            n, dt, nreq = cfg['n'], cfg['dtype'], cfg['nreq']
            xs, sc = _vec(e, 'c', n, dt)
            req = [e.int('r%d' % i, 0) for i in range(nreq)]
            for r in req:
                e.prefer.append(r <= 9)
            if cfg.get('fixed_sc'):
                xs = xs + list(cfg['fixed_sc'])
                sc = snp.ndarray(snp._fromlist(list(xs), (len(xs),)), dt)
                req = req + list(cfg['fixed_req'])
                n = len(xs)
            e.case_builder = lambda ev: {'kind': kind, 'sc': ev(xs), 'dtype': dt, 'req': ev(req)}
            try:
                out = arr._spikes_in_clusters(sc, list(req))
                out = [int(v) for v in snp.asarray(out).a.tolist()]
            except Exception as ex:
                e.fail('exception %r' % (ex,))
            e.prove(out == sorted(set(out)), 'result not strictly increasing')
            for p in range(n):
                member = sor(*[xs[p] == r for r in req])
                e.prove(member if p in out else snot(member), 'spike %d wrongly %s' % (
                    p, 'selected' if p in out else 'omitted'))
            e.witness()
        elif kind == 'unique':
            n, dt, V = cfg['n'], cfg['dtype'], cfg['V']
            xs, x = _vec(e, 'c', n, dt, hi=V - 1)
            e.case_builder = lambda ev: {'kind': kind, 'x': ev(xs), 'dtype': dt}
            try:
                out = arr._unique(x)
                out = [int(v) for v in snp.asarray(out).a.tolist()]
            except Exception as ex:
                e.fail('exception %r' % (ex,))
            e.prove(out == sorted(set(out)), 'not strictly increasing')
            for v in range(V):
                present = sor(*[t == v for t in xs])
                e.prove(present if v in out else snot(present), 'id %d wrongly %s' % (
                    v, 'reported' if v in out else 'missing'))
            e.witness()
        elif kind == 'index_of':
            nl, na = cfg['nl'], cfg['na']
            lk = [e.int('l%d' % i, 0, 2 ** 31 - 2) for i in range(nl)]
            for a in range(nl):
                e.prefer.append(lk[a] <= 9)
                for b in range(a + 1, nl):
                    e.assume(lk[a] != lk[b])
            ar = [e.int('a%d' % i) for i in range(na)]
            if cfg.get('sentinel'):
                lk = lk + [-1]
                nl = nl + 1
            for a in ar:
                e.assume(sor(*[a == t for t in lk]))
            lookup = snp.ndarray(snp._fromlist(lk, (nl,)), 'int64')
            arg = snp.ndarray(snp._fromlist(ar, (na,)), 'int64')
            e.case_builder = lambda ev: {'kind': kind, 'lookup': ev(lk), 'arr': ev(ar)}
            try:
                out = arr._index_of(arg, lookup)
                out = snp.asarray(out)
                res = out.a.tolist()
            except Exception as ex:
                e.fail('exception %r' % (ex,))
            e.prove(len(res) == na, 'wrong length')
            for a, r in zip(ar, res):
                e.prove(sand(r >= 0, r < nl), 'index out of range')
                e.prove(lam._select(lk, r) == a, 'lookup[index] != value')
            e.witness()
        elif kind == 'grouped_mean':
            n, dt, V = cfg['n'], cfg['dtype'], cfg['V']
            xs, sc = _vec(e, 'c', n, dt, hi=V - 1)
            vdt = cfg.get('vdtype', 'float64')
            if vdt == 'float64':
                vs = [e.real('v%d' % i) for i in range(n)]
            else:
                # a narrow integer quantity (its sum must not be accumulated in that type)
                vs = [e.int('v%d' % i, int(np.iinfo(vdt).min), int(np.iinfo(vdt).max)) for i in range(n)]
            val = snp.ndarray(snp._fromlist(vs, (n,)), vdt)
            e.case_builder = lambda ev: {'kind': kind, 'sc': ev(xs), 'dtype': dt, 'values': ev(vs), 'vdtype': vdt}
            try:
                out = arr.grouped_mean(val, sc)
                res = snp.asarray(out).a.tolist()
                present = [int(v) for v in snp.asarray(arr._unique(sc)).a.tolist()]
            except Exception as ex:
                e.fail('exception %r' % (ex,))
            e.prove(len(res) == len(present), 'wrong number of groups')
            for cid, r in zip(present, res):
                cnt = ssum([ite(x == cid, 1, 0) for x in xs])
                tot = ssum([ite(x == cid, v, SymReal(0) if vdt == 'float64' else 0) for x, v in zip(xs, vs)])
                # r == tot / cnt  <=>  r * cnt == tot ; cnt takes finitely many values
                e.prove(sor(*[sand(cnt == k, r * k == tot) for k in range(1, n + 1)]),
                        'mean of cluster %d wrong' % cid)
            e.witness()
        elif kind == 'model':
            n, dt, T = cfg['n'], cfg['dtype'], cfg['T']
            mod = pkg.load('phylib.io.model')
            xs, sc = _vec(e, 'c', n, 'int32')
            ts, st = _vec(e, 't', n, dt, hi=T - 1)
            q = e.int('q', 0)
            e.prefer.append(q <= 9)
            m = object.__new__(mod.TemplateModel)
            m.spike_clusters, m.spike_templates, m.n_templates = sc, st, T
            m.template_ids = snp.unique(st)
            e.case_builder = lambda ev: {'kind': kind, 'sc': ev(xs), 'st': ev(ts), 'dtype': dt, 'q': ev(q),
                                         'T': T}
            try:
                cs = [int(v) for v in snp.asarray(m.get_cluster_spikes(q)).a.tolist()]
                tsp = [int(v) for v in snp.asarray(m.get_template_spikes(q)).a.tolist()]
                cnt = snp.asarray(m.get_template_counts(q)).a.tolist()
            except Exception as ex:
                e.fail('exception %r' % (ex,))
            for p in range(n):
                e.prove((xs[p] == q) if p in cs else (xs[p] != q), 'get_cluster_spikes wrong at %d' % p)
                e.prove((ts[p] == q) if p in tsp else (ts[p] != q), 'get_template_spikes wrong at %d' % p)
            e.prove(cs == sorted(cs) and tsp == sorted(tsp), 'not increasing')
            e.prove(len(cnt) == T, 'histogram length != n_templates')
            for t in range(T):
                e.prove(cnt[t] == ssum([ite(sand(xs[p] == q, ts[p] == t), 1, 0) for p in range(n)]),
                        'get_template_counts[%d] wrong' % t)
            e.witness()
        elif kind == 'flatten':
            n = cfg['n']
            a = [e.int('a%d' % i, 0) for i in range(n)]
            b = [e.int('b%d' % i, 0) for i in range(2)]
            for v in a + b:
                e.prefer.append(v <= 9)
            d = {0: snp.ndarray(snp._fromlist(a, (n,)), 'int64'), 5: snp.ndarray(snp._fromlist(b, (2,)), 'int32')}
            e.case_builder = lambda ev: {'kind': kind, 'a': ev(a), 'b': ev(b)}
            try:
                out = snp.asarray(arr._flatten_per_cluster(d))
                res = out.a.tolist()
            except Exception as ex:
                e.fail('exception %r' % (ex,))
            e.prove(out.dtype == np.dtype('int64'), 'dtype')
            for x, y in zip(res[:-1], res[1:]):
                e.prove(x < y, 'not strictly increasing')
            for v in a + b:
                e.prove(sor(*[r == v for r in res]), 'member missing')
            for r in res:
                e.prove(sor(*[r == v for v in a + b]), 'foreign member')
            e.witness()
        else:
            raise ValueError(kind)

    e.explore(fn)


def replay(case):
    from symx.loader import real_phylib
    real_phylib()
    from phylib.io import array as arr
    from phylib.io import model as mod
    kind = case['kind']
    if kind == 'spc':
        sc = np.array(case['sc'], dtype=case['dtype'])
        ids = None if case['ids'] is None else np.array(case['ids'], dtype=np.int64)
        try:
            d = arr._spikes_per_cluster(sc, ids)
        except Exception as ex:
            return 'raised %r' % (ex,)
        idl = list(range(len(sc))) if ids is None else list(case['ids'])
        want = {}
        for p, c in enumerate(case['sc']):
            want.setdefault(c, []).append(idl[p])
        got = {int(k): [int(x) for x in v] for k, v in d.items()}
        return None if got == want and len(d) == len(got) else '_spikes_per_cluster(%s) = %s, expected %s' % (
            case['sc'], got, want)
    if kind == 'sic':
        sc = np.array(case['sc'], dtype=case['dtype'])
        try:
            out = arr._spikes_in_clusters(sc, list(case['req']))
        except Exception as ex:
            return 'raised %r' % (ex,)
        want = [p for p, c in enumerate(case['sc']) if c in case['req']]
        return None if list(map(int, out)) == want else '_spikes_in_clusters = %s, expected %s' % (list(out), want)
    if kind == 'unique':
        x = np.array(case['x'], dtype=case['dtype'])
        try:
            out = arr._unique(x)
        except Exception as ex:
            return 'raised %r' % (ex,)
        want = sorted(set(case['x']))
        return None if list(map(int, out)) == want else '_unique(%s) = %s' % (case['x'], list(out))
    if kind == 'index_of':
        try:
            out = arr._index_of(np.array(case['arr'], dtype=np.int64), np.array(case['lookup'], dtype=np.int64))
        except Exception as ex:
            return 'raised %r' % (ex,)
        want = [case['lookup'].index(a) for a in case['arr']]
        return None if list(map(int, out)) == want else '_index_of(%s, %s) = %s' % (case['arr'], case['lookup'], list(out))
    if kind == 'grouped_mean':
        sc = np.array(case['sc'], dtype=case['dtype'])
        v = np.array(case['values'], dtype=case.get('vdtype', 'float64'))
        try:
            out = arr.grouped_mean(v, sc)
        except Exception as ex:
            return 'raised %r' % (ex,)
        want = [np.mean([x for x, c in zip(case['values'], case['sc']) if c == k]) for k in sorted(set(case['sc']))]
        return None if len(out) == len(want) and np.allclose(out, want, rtol=1e-9, atol=1e-9) else \
            'grouped_mean = %s, expected %s' % (list(out), want)
    if kind == 'model':
        m = object.__new__(mod.TemplateModel)
        m.spike_clusters = np.array(case['sc'], dtype=np.int32)
        m.spike_templates = np.array(case['st'], dtype=case['dtype'])
        m.n_templates = case['T']
        m.template_ids, m.cluster_ids = np.unique(m.spike_templates), np.unique(m.spike_clusters)
        q = case['q']
        try:
            cs, tsp, cnt = m.get_cluster_spikes(q), m.get_template_spikes(q), m.get_template_counts(q)
        except Exception as ex:
            return 'raised %r' % (ex,)
        wc = [p for p, c in enumerate(case['sc']) if c == q]
        wt = [p for p, c in enumerate(case['st']) if c == q]
        wn = [sum(1 for p in wc if case['st'][p] == t) for t in range(case['T'])]
        if list(map(int, cs)) != wc or list(map(int, tsp)) != wt or list(map(int, cnt)) != wn:
            return 'model queries %s %s %s, expected %s %s %s' % (list(cs), list(tsp), list(cnt), wc, wt, wn)
        return None
    if kind == 'flatten':
        d = {0: np.array(case['a'], dtype=np.int64), 5: np.array(case['b'], dtype=np.int32)}
        out = arr._flatten_per_cluster(d)
        want = sorted(set(case['a'] + case['b']))
        return None if list(map(int, out)) == want and out.dtype == np.int64 else 'flatten = %s' % list(out)
    raise ValueError(kind)


if __name__ == '__main__':
    sys.exit(harness.main('checks.c07'))
