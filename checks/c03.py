"""C03 Every route to a spike waveform yields the same zero-padded raw window."""
import sys
import itertools
import z3
import numpy as np

from symx import core, env, lam, harness, vfs, symnp as snp
from symx.core import SymInt, SymReal, sand, sor, snot, implies, ite
from checks.readers import SymRecording, RealRecording, RATE

PID = 'C03'
FUNCTIONS = ['phylib/io/traces.py:' + f for f in (
    '_extract_waveform', 'extract_waveforms', 'iter_waveforms', 'export_waveforms', 'NpyWriter.__init__',
    'NpyWriter.append', 'NpyWriter.close', '_npy_header', 'get_spike_waveforms', '_find_chunks',
    'BaseEphysReader.iter_chunks', 'BaseEphysReader.__getitem__', '_get_subitems')] + [
    'phylib/io/array.py:_index_of', 'phylib/io/model.py:TemplateModel.get_waveforms']
BOUNDS = {
    'quick': {'spikes': '1..2', 'parts(=chunks)': '1..2', 'channels_per_spike': '1..2', 'recording_channels': 2,
              'subset_store': '2 stored spikes x 2 channels, window 2..3',
              'unbounded': ['recording length / part sizes', 'window length n (extract/export routes)',
                            'spike samples', 'unit factor', 'sample values']},
    'thorough': {'spikes': '1..3', 'parts(=chunks)': '1..3', 'channels_per_spike': '1..3', 'recording_channels': 3,
                 'subset_store': '3 stored spikes x 2 channels, window 2..3',
                 'unbounded': ['recording length / part sizes', 'window length n (extract/export routes)',
                               'spike samples', 'unit factor', 'sample values']},
}
ASSUMPTIONS = [
    'spike samples sorted (non-decreasing) with 0 <= s < n_samples, dtype int64/int32/uint64/uint32 '
    '(unsigned wrap-around modelled); channel entries in [-1, n_channels)',
    'chunk boundaries are the file boundaries (parts shorter than one default chunk; the chunk grid itself is C16)',
    'unit factor: symbolic int or real (product modelled exactly; float rounding outside)',
    'np.load of a file whose bytes and declared dtype/shape disagree fails (virtual file system rule)',
    'subset store contents are the true windows (as written by an export); queried spike ids are stored ids in '
    'any order; requested channels are non-negative',
]
STUBS = ['tqdm (no-op)', 'numpy.lib.format._write_array_header (records shape/dtype in the virtual file)',
         'Path.stat/np.memmap (virtual file system)']
OUTSIDE = ['mtscomp chunk iteration with a thread pool (C16 covers its intervals)', 'float rounding',
           'more spikes/parts than the bound']
WITNESS_CAP = {'quick': 30, 'thorough': 60}
LOOP_BOUND = 16
SDT = ['int64', 'uint64', 'int32', 'uint32']


def configs(tier):
    quick = tier == 'quick'
    out = []
    for route in ('extract', 'export'):
        for K in ((1, 2) if quick else (1, 2, 3)):
            for m in ((1, 2) if quick else (1, 2, 3)):
                for ncl in ((1, 2) if quick else (1, 2, 3)):
                    for sdt in SDT:
                        for chk in ('array', 'list'):
                            if route == 'export' and chk == 'list' and ncl > 1:
                                continue
                            if m == 3 and (K >= 2 or ncl >= 2):
                                continue
                            if K == 3 and ncl == 3:
                                continue
                            if quick and m == 2 and ncl == 2 and sdt in ('int32', 'uint32'):
                                continue
                            rdt = ['int16', 'float32', 'float64'][(K + m + ncl + SDT.index(sdt)) % 3]
                            fk = ['int', 'real', 'default'][(K + m + SDT.index(sdt)) % 3]
                            out.append({'route': route, 'K': K, 'm': m, 'ncl': ncl, 'sdt': sdt, 'chk': chk,
                                        'rdt': rdt, 'factor': fk, 'nc': 2 if quick else 3})
    for m in (1, 2):
        for sdt in ('int64', 'uint64'):
            out.append({'route': 'export', 'K': 1, 'm': m, 'ncl': 1, 'sdt': sdt, 'chk': 'array', 'rdt': 'int16',
                        'factor': 'real', 'nc': 2, 'cbin': True, 'cache': sdt == 'int64'})
    for nsw in (2, 3):
        for nq in (1, 2):
            for nreq in (1, 2):
                out.append({'route': 'store', 'nsw': nsw, 'nq': nq, 'nreq': nreq, 'nstore': 2 if quick else 3})
                out.append({'route': 'model', 'nsw': nsw, 'nq': nq, 'nreq': nreq, 'nstore': 2, 'with_store': True})
    out.append({'route': 'model', 'nsw': 2, 'nq': 2, 'nreq': 2, 'nstore': 0, 'with_store': False})
    return out


def _window(rec, s, nsw, t, ch):
    """true window value at offset t on channel ch for a spike at sample s"""
    row = s - nsw // 2 + t
    inside = sand(row >= 0, row < rec.n, ch >= 0)
    zero = SymReal(0) if rec.dtype.kind == 'f' else 0
    return ite(inside, rec.T(ite(inside, row, 0), ite(ch >= 0, ch, 0)), zero)


def _mulf(v, f):
    return v if f is None else v * f


def run_config(cfg, e):
    pkg = env.make_pkg(record=e.functions)
    tr = pkg.load('phylib.io.traces')

    def fn():
        vfs.reset()
        route = cfg['route']
        if route in ('extract', 'export'):
            rec = SymRecording(e, 'cbin' if cfg.get('cbin') else ('flat' if cfg['K'] > 1 else 'array'), cfg['K'],
                               cfg['nc'], cfg['rdt'], header=False)
            n = rec.n
            cbin = None
            if cfg.get('cbin'):
                c1 = e.int('c1', 1)
                e.assume(c1 < n)
                bs = e.int('batch_size', 1)
                e.prefer.append(sand(bs <= 2, c1 <= 8))
                cbin = (c1, bs)
            m, ncl = cfg['m'], cfg['ncl']
            nsw = e.int('nsw', 1)
            e.prefer.append(nsw <= 4)
            ss = []
            prev = 0
            hi = int(np.iinfo(cfg['sdt']).max)
            for k in range(m):
                s = e.int('s%d' % k, 0)
                e.assume(sand(s >= prev, s < n, s <= hi))
                prev = s
                ss.append(s)
            samples = snp.ndarray(snp._fromlist(ss, (m,)), cfg['sdt'])
            if route == 'extract':
                ch = [e.int('ch%d' % c, -1, cfg['nc'] - 1) for c in range(ncl)]
                chs = [ch] * m
                channels = list(ch) if cfg['chk'] == 'list' else snp.ndarray(snp._fromlist(ch, (ncl,)), 'int64')
            else:
                chs = [[e.int('ch%d_%d' % (k, c), -1, cfg['nc'] - 1) for c in range(ncl)] for k in range(m)]
                flat = [v for row in chs for v in row]
                if cfg['chk'] == 'list':
                    channels = [list(r) for r in chs]
                else:
                    channels = snp.ndarray(snp._fromlist(flat, (m, ncl)), 'int64')
            fk = cfg['factor']
            if route == 'extract' or fk == 'default':
                factor = None
            elif fk == 'int':
                factor = e.int('factor')
                e.prefer.append(sand(factor >= 1, factor <= 3))
            else:
                factor = e.real('factor')
                e.prefer.append(sor(factor == SymReal(z3.RealVal('1/2')), factor == SymReal(z3.RealVal('5/2'))))
            e.case_builder = lambda ev: dict(rec.case(ev), cbin=None if cbin is None else [ev(cbin[0]), ev(cbin[1])],
                                             route=route, nsw=ev(nsw), samples=ev(ss), sdt=cfg['sdt'],
                                             channels=[ev(r) for r in chs], chk=cfg['chk'],
                                             factor=None if factor is None else ev(factor), fkind=fk)
            try:
                if cbin is None:
                    reader = rec.make_reader(pkg)
                else:
                    reader = rec.make_reader(pkg, chunk_bounds=[0, cbin[0], n], batch_size=cbin[1])
                if route == 'extract':
                    out = tr.extract_waveforms(reader, samples, channels, n_samples_waveforms=nsw)
                    exp_dt = rec.dtype
                else:
                    path = vfs.VPath('/d/wave.npy')
                    if factor is None:
                        tr.export_waveforms(path, reader, samples, channels, n_samples_waveforms=nsw)
                        exp_dt = np.dtype('float64')
                    else:
                        tr.export_waveforms(path, reader, samples, channels, n_samples_waveforms=nsw,
                                            sample2unit=factor, **({'cache': cfg['cache']} if cbin else {}))
                        exp_dt = np.dtype('float64')
                    try:
                        out = snp.load(path)
                    except ValueError as ex:
                        e.fail('exported file does not load: %s' % ex)
            except Exception as ex:
                e.fail('exception %r' % (ex,))
            out = snp.asarray(out)
            e.prove_all([(out.ndim == 3, 'not 3-D'), (out.shape[0] == m, 'wrong number of spikes'),
                         (out.shape[1] == nsw, 'wrong window length'), (out.shape[2] == ncl, 'wrong channel count'),
                         (out.dtype == exp_dt, 'dtype %s, expected %s' % (out.dtype, exp_dt))])
            t = e.int('t')
            g = sand(t >= 0, t < nsw)
            obl = []
            for k in range(m):
                for c in range(ncl):
                    w = _window(rec, ss[k], nsw, t, chs[k][c])
                    obl.append((implies(g, lam.elem(out, (k, t, c)) == _mulf(w, factor)),
                                'wrong value for spike %d, channel slot %d' % (k, c)))
            e.prove_all(obl)
            e.witness()
            return
        # ---- subset store / model routes: concrete small window, array-backed recording ----
        nsw, nq, nreq, nst = cfg['nsw'], cfg['nq'], cfg['nreq'], cfg['nstore']
        nc = 3
        rec = SymRecording(e, 'array', 1, nc, 'int16', header=False)
        n = rec.n
        e.assume(n >= nsw + 1)
        # stored spikes: ids strictly increasing (unbounded), samples sorted
        nall = 3
        samples = []
        prev = 0
        for k in range(nall):
            s = e.int('s%d' % k, 0)
            e.assume(sand(s >= prev, s < n))
            prev = s
            samples.append(s)
        stored = sorted(set([0, 2][:nst])) if nst <= 2 else [0, 1, 2]
        store_ch = [[e.int('sc%d_%d' % (k, c), -1, nc - 1) for c in range(2)] for k in range(len(stored))]
        for row in store_ch:
            e.assume(sor(row[0] != row[1], row[0] == -1))
        Wst = snp._obj((len(stored), nsw, 2))
        for k, sid in enumerate(stored):
            for t in range(nsw):
                for c in range(2):
                    Wst[k, t, c] = snp._strip(_window(rec, samples[sid], nsw, t, store_ch[k][c]))
        Bunch = pkg.load('phylib.utils._types').Bunch
        store = Bunch(spike_ids=snp.asarray(np.array(stored, dtype=np.int64)),
                      spike_channels=snp.ndarray(snp._fromlist([v for r in store_ch for v in r],
                                                               (len(stored), 2)), 'int32'),
                      waveforms=snp.ndarray(Wst, 'int16')) if stored else None
        req = [e.int('rq%d' % c, 0, nc - 1) for c in range(nreq)]
        for a, b in itertools.combinations(req, 2):
            e.assume(a != b)
        pool = stored if (route == 'store' or cfg.get('with_store')) else [0, 1, 2]
        q = [e.choice('q%d' % i, list(pool) + ([1] if route == 'model' and cfg.get('with_store') and i == 0
                                                  and 1 not in pool else [])) for i in range(nq)]
        e.case_builder = lambda ev: dict(rec.case(ev), route=route, nsw=nsw, samples=ev(samples), stored=stored,
                                         store_ch=[ev(r) for r in store_ch], req=ev(req), q=list(q),
                                         with_store=cfg.get('with_store', True))
        try:
            qa = snp.asarray(np.array(q, dtype=np.int64))
            ra = snp.ndarray(snp._fromlist(req, (nreq,)), 'int64')
            if route == 'store':
                out = tr.get_spike_waveforms(qa, ra, spike_waveforms=store, n_samples_waveforms=nsw)
            else:
                mod = pkg.load('phylib.io.model')
                mdl = object.__new__(mod.TemplateModel)
                mdl.traces = rec.make_reader(pkg)
                mdl.spike_waveforms = store if cfg.get('with_store') else None
                mdl.n_samples_waveforms = nsw
                mdl.n_channels = nc
                mdl.spike_samples = snp.ndarray(snp._fromlist(samples, (nall,)), 'uint64')
                out = mdl.get_waveforms(qa, ra)
        except Exception as ex:
            e.fail('exception %r' % (ex,))
        out = snp.asarray(out)
        e.prove(out.shape == (nq, nsw, nreq), 'shape %s' % (out.shape,))
        obl = []
        from_store = (route == 'store') or (cfg.get('with_store') and all(x in stored for x in q))
        for i, sid in enumerate(q):
            for t in range(nsw):
                for c in range(nreq):
                    w = _window(rec, samples[sid], nsw, t, req[c])
                    if from_store:
                        k = stored.index(sid)
                        has = sor(*[store_ch[k][cc] == req[c] for cc in range(2)])
                        w = ite(has, w, 0)
                    obl.append((lam.elem(out, (i, t, c)) == w, 'wrong value spike %d t %d channel slot %d' % (i, t, c)))
        e.prove_all(obl)
        e.witness()

    e.explore(fn)


# ------------------------------------------------------------------------------------------
# replay
# ------------------------------------------------------------------------------------------

def _np_window(data, s, nsw, ch):
    n = data.shape[0]
    out = np.zeros((nsw, len(ch)), dtype=data.dtype)
    for t in range(nsw):
        row = s - nsw // 2 + t
        for c, cc in enumerate(ch):
            if 0 <= row < n and cc >= 0:
                out[t, c] = data[row, cc]
    return out


def replay(case):
    import tempfile, os, shutil
    if case.get('nsw', 0) > 2000:
        raise core.TooLarge('window %d' % case['nsw'])
    rr = RealRecording(case)
    try:
        from phylib.io import traces as tr
        from phylib.io import model as mod
        from phylib.utils import Bunch
        if case.get('cbin'):
            reader = rr.reader(chunk_duration=case['cbin'][0] / RATE, n_threads=max(1, min(4, case['cbin'][1])))
        else:
            reader = rr.reader()
        data = rr.data
        route = case['route']
        nsw = case['nsw']
        if route in ('extract', 'export'):
            samples = np.array(case['samples'], dtype=case['sdt'])
            chs = case['channels']
            m = len(samples)
            if route == 'extract':
                channels = list(chs[0]) if case['chk'] == 'list' else np.array(chs[0], dtype=np.int64)
                try:
                    out = tr.extract_waveforms(reader, samples, channels, n_samples_waveforms=nsw)
                except Exception as ex:
                    return 'extract_waveforms raised %r (samples %s %s, n=%d, nsw=%d)' % (
                        ex, case['samples'], case['sdt'], rr.n, nsw)
                want = np.stack([_np_window(data, int(s), nsw, chs[0]) for s in case['samples']])
                if out.shape != want.shape or out.dtype != data.dtype or not np.array_equal(out, want):
                    return 'extract_waveforms(samples=%s %s, channels=%s (%s), n=%d) = %s, window is %s' % (
                        case['samples'], case['sdt'], chs[0], case['chk'], nsw, out.tolist(), want.tolist())
                return None
            channels = [list(r) for r in chs] if case['chk'] == 'list' else np.array(chs, dtype=np.int64)
            path = os.path.join(rr.dir, 'wave.npy')
            f = case['factor']
            kw = {}
            if f is not None:
                kw['sample2unit'] = int(f) if case['fkind'] == 'int' else float(f)
            if case.get('cbin'):
                kw['cache'] = True
            try:
                tr.export_waveforms(path, reader, samples, channels, n_samples_waveforms=nsw, **kw)
            except Exception as ex:
                return 'export_waveforms raised %r' % (ex,)
            try:
                out = np.load(path)
            except Exception as ex:
                return 'exported file does not load (traces %s, factor %r): %r' % (data.dtype, kw, ex)
            want = np.stack([_np_window(data, int(s), nsw, chs[k]) for k, s in enumerate(case['samples'])])
            want = want * kw.get('sample2unit', 1)
            kw.pop('cache', None)
            if out.shape != want.shape:
                return 'exported shape %s, declared/expected %s' % (out.shape, want.shape)
            if not np.allclose(out, want, rtol=1e-6, atol=1e-9):
                return 'exported file holds %s, windows*factor are %s' % (out.tolist(), want.tolist())
            return None
        stored = case['stored']
        samples = case['samples']
        req, q = case['req'], case['q']
        store = None
        if stored:
            W = np.stack([_np_window(data, samples[sid], nsw, case['store_ch'][k]) for k, sid in enumerate(stored)])
            store = Bunch(spike_ids=np.array(stored, dtype=np.int64),
                          spike_channels=np.array(case['store_ch'], dtype=np.int32), waveforms=W)
        qa, ra = np.array(q, dtype=np.int64), np.array(req, dtype=np.int64)
        try:
            if route == 'store':
                out = tr.get_spike_waveforms(qa, ra, spike_waveforms=store, n_samples_waveforms=nsw)
                from_store = True
            else:
                mdl = object.__new__(mod.TemplateModel)
                mdl.traces = reader
                mdl.spike_waveforms = store if case.get('with_store') else None
                mdl.n_samples_waveforms = nsw
                mdl.n_channels = data.shape[1]
                mdl.spike_samples = np.array(samples, dtype=np.uint64)
                out = mdl.get_waveforms(qa, ra)
                from_store = bool(case.get('with_store')) and all(x in stored for x in q)
        except Exception as ex:
            return 'raised %r' % (ex,)
        want = np.zeros((len(q), nsw, len(req)), dtype=data.dtype)
        for i, sid in enumerate(q):
            w = _np_window(data, samples[sid], nsw, req)
            if from_store:
                k = stored.index(sid)
                for c, cc in enumerate(req):
                    if cc not in case['store_ch'][k]:
                        w[:, c] = 0
            want[i] = w
        if out.shape != want.shape or not np.array_equal(out, want):
            return 'route %s: got %s, expected %s' % (route, np.asarray(out).tolist(), want.tolist())
        return None
    finally:
        rr.close()


def classify(case, failure):
    return None


if __name__ == '__main__':
    sys.exit(harness.main('checks.c03'))
