"""C02 Lazy reader expressions commute with eager NumPy evaluation."""
import sys
import operator
import z3
import numpy as np

from symx import core, env, lam, harness, vfs, symnp as snp
from symx.core import SymInt, SymReal, sand, sor, implies, ite
from checks.readers import SymRecording, RealRecording, RATE

PID = 'C02'
FUNCTIONS = ['phylib/io/traces.py:' + f for f in (
    'BaseEphysReader.__getitem__', 'BaseEphysReader._append_op', 'BaseEphysReader._apply_ops', '_apply_op',
    'BaseEphysReader.__add__', 'BaseEphysReader.__radd__', 'BaseEphysReader.__sub__',
    'BaseEphysReader.__rsub__', 'BaseEphysReader.__mul__', 'BaseEphysReader.__rmul__',
    'BaseEphysReader.__truediv__', 'BaseEphysReader.__rtruediv__', 'BaseEphysReader.__floordiv__',
    'BaseEphysReader.__rfloordiv__', 'BaseEphysReader.__pow__', 'BaseEphysReader.__rpow__',
    'BaseEphysReader.__pos__', 'BaseEphysReader.__neg__', '_get_subitems')]
BOUNDS = {
    'quick': {'program_depth': 2, 'derivation_trees': 'parent -> 2 children -> grandchild',
              'backends': ['flat (2 files)', 'array'], 'dtypes': ['int16', 'float32'],
              'unbounded': ['scalar arguments', 'recording length / part sizes', 'row index', 'sample values']},
    'thorough': {'program_depth': '3 (four backend/dtype combinations), 2 (seven more)', 'derivation_trees': 'parent -> 2 children -> grandchild',
                 'backends': ['flat (2 files)', 'array', 'npy', 'cbin'], 'dtypes': ['int16', 'float32', 'float64'],
                 'unbounded': ['scalar arguments', 'recording length / part sizes', 'row index', 'sample values']},
}
ASSUMPTIONS = [
    'operators are applied through Python operator syntax (reflected dispatch is Python\'s own)',
    'scalar arguments of + and - (both sides) and of reflected division are symbolic ints or reals; factors and '
    'divisors of * / // are concrete constants (3, -2, 1.5, 0.5); pow uses exponent 2, rpow base 2; division by a '
    'symbolic sample and powers outside x**k (k<=8) are uninterpreted functions (sound over-approximation)',
    'NumPy elementwise arithmetic and promotion are modelled by symx.symnp on both sides of the comparison '
    '(dtype rules taken from real NumPy on dummy operands); what is decided is which operators, arguments, '
    'order and columns the reader replays; real arithmetic is compared in witness replays',
    'row index: non-negative int, two-sided slice with non-negative bounds selecting >= 1 row, or strictly '
    'increasing list of 2 (negative bounds and the other index forms are C01\'s subject)',
    'operand and selector forms added after seeding rounds: unsigned sample dtypes (uint8/uint16), typed NumPy scalar operands (symbolic np.int64; np.float32 from {0.5, 1.5, -2}), first-step column selectors of every form (int list, bool list, bool mask, int/unsigned array, tuple, slice, negative index); later steps use integer lists',
]
STUBS = ['np.memmap / Path.stat (virtual file system)', 'mtscomp.Reader (contract stub, thorough tier)']
OUTSIDE = ['programs deeper than the bound', 'NumPy arithmetic itself (identical on both sides)']
WITNESS_CAP = {'quick': 30, 'thorough': 60}
LOOP_BOUND = 16

OPS = ['pos', 'neg', 'add', 'radd', 'sub', 'rsub', 'mul', 'rmul', 'truediv', 'rtruediv', 'floordiv',
       'rfloordiv', 'pow', 'rpow', 'cols']
TREE_OPS = [OPS.index('add'), OPS.index('neg'), OPS.index('cols'), OPS.index('rsub')]
# column selectors: (form, selector as JSON, resulting column indices)
COLSETS = {1: [('list', [0], [0]), ('bools', [True], [0])],
           2: [('list', [1, 0], [1, 0]), ('list', [1], [1]), ('list', [0, 1], [0, 1]),
               ('bools', [False, True], [1]), ('arr', [1, 0], [1, 0]), ('slice', [None, None, -1], [1, 0]),
               ('list', [-1], [1])],
           3: [('list', [2, 0], [2, 0]), ('list', [1, 2, 0], [1, 2, 0]), ('list', [1], [1]),
               ('bools', [True, False, True], [0, 2]), ('mask', [False, True, True], [1, 2]),
               ('slice', [1, 3, None], [1, 2]), ('tuple', [2, 1], [2, 1]), ('uarr', [2, 0], [2, 0])]}


def _selector(desc, xp):
    """the Python object used as column selector (xp: numpy or the model)"""
    form, sel = desc['form'], desc['sel']
    if form in ('list', 'bools'):
        return list(sel)
    if form == 'tuple':
        return tuple(sel)
    if form == 'slice':
        return slice(*sel)
    if form == 'mask':
        return xp.asarray(np.array(sel, dtype=bool))
    if form == 'uarr':
        return xp.asarray(np.array(sel, dtype=np.uint32))
    return xp.asarray(np.array(sel, dtype=np.int64))



def apply_op(x, op, arg):
    """Python operator syntax on x (a reader, an array, or a NumPy array)."""
    if op == 'pos':
        return +x
    if op == 'neg':
        return -x
    if op == 'add':
        return x + arg
    if op == 'radd':
        return arg + x
    if op == 'sub':
        return x - arg
    if op == 'rsub':
        return arg - x
    if op == 'mul':
        return x * arg
    if op == 'rmul':
        return arg * x
    if op == 'truediv':
        return x / arg
    if op == 'rtruediv':
        return arg / x
    if op == 'floordiv':
        return x // arg
    if op == 'rfloordiv':
        return arg // x
    if op == 'pow':
        return x ** arg
    if op == 'rpow':
        return arg ** x
    if op == 'cols':
        if isinstance(arg, dict):
            arg = _selector(arg, np if isinstance(x, np.ndarray) else _MODE['xp'])
        return x[:, arg]
    raise ValueError(op)


_MODE = {'xp': snp}      # array library of the selectors handed to readers: the model (symbolic run) or NumPy (replay)


def configs(tier):
    quick = tier == 'quick'
    out = []
    if quick:
        combos = [('flat', 2, 'int16', 'int', 'slice'), ('array', 1, 'float32', 'float', 'slice'),
                  ('flat', 2, 'float32', 'int', 'int'), ('array', 1, 'int16', 'float', 'list2'),
                  ('array', 1, 'uint16', 'float', 'int'), ('array', 1, 'int16', 'i64', 'int'),
                  ('flat', 2, 'int16', 'f32', 'int')]
    else:
        combos = [('flat', 2, 'int16', 'int', 'slice'), ('flat', 2, 'float32', 'float', 'slice'),
                  ('flat', 2, 'float64', 'int', 'int'), ('flat', 2, 'int16', 'float', 'list2'),
                  ('array', 1, 'float32', 'float', 'slice'), ('array', 1, 'int16', 'int', 'int'),
                  ('array', 1, 'float64', 'float', 'list2'), ('npy', 1, 'int16', 'int', 'slice'),
                  ('npy', 1, 'float32', 'float', 'list2'), ('cbin', 1, 'int16', 'float', 'slice'),
                  ('cbin', 1, 'float32', 'int', 'slice'), ('array', 1, 'uint16', 'float', 'int'),
                  ('flat', 2, 'uint8', 'int', 'slice'), ('array', 1, 'int16', 'i64', 'int'),
                  ('flat', 2, 'int16', 'f32', 'int'), ('npy', 1, 'float32', 'i64', 'slice')]
    for ci, (backend, K, dtype, sk, item) in enumerate(combos):
        # thorough: depth 3 on the first four combinations, depth 2 on the others
        D = 2 if (quick or ci >= 4) else 3
        for first in range(len(OPS)):
            if D == 3:
                for second in range(len(OPS)):
                    out.append({'kind': 'prog', 'backend': backend, 'K': K, 'dtype': dtype, 'scalar': sk,
                                'item': item, 'depth': D, 'first': first, 'second': second,
                                'nc': 3 if item == 'slice' else 2})
            else:
                base = {'kind': 'prog', 'backend': backend, 'K': K, 'dtype': dtype, 'scalar': sk,
                        'item': item, 'depth': D, 'first': first, 'nc': 3 if item == 'slice' else 2}
                if OPS[first] == 'cols':
                    # one configuration per form of the first column selector (parallelism)
                    for c0 in range(len(COLSETS[base['nc']])):
                        out.append(dict(base, col0=c0))
                else:
                    out.append(base)
    for backend, K, dtype in ([('flat', 2, 'int16'), ('array', 1, 'float32')] if quick else
                              [('flat', 2, 'int16'), ('array', 1, 'float32'), ('flat', 2, 'float32'),
                               ('array', 1, 'int16')]):
        for first in range(len(OPS)):
            for second in range(len(OPS)):
                if quick and (first + second) % 3 != 0:
                    continue
                out.append({'kind': 'tree', 'backend': backend, 'K': K, 'dtype': dtype, 'scalar': 'int',
                            'item': 'slice', 'first': first, 'second': second, 'nc': 2})
    return out


def _mkarg(e, op, sk, i, width, col0=None):
    """symbolic scalar (or column list) for step i"""
    if op in ('pos', 'neg'):
        return None, None
    if op == 'cols':
        opts = COLSETS[width]
        # every selector form as the first step of a program (one configuration each); later steps and
        # derivation trees use the three integer lists
        c = col0 if (i == 0 and col0 is not None) else e.choice('cols%d' % i, [k for k in range(len(opts))
                                                                               if opts[k][0] == 'list'][:3])
        d = {'form': opts[c][0], 'sel': list(opts[c][1]), 'idx': list(opts[c][2])}
        return d, d
    if op == 'pow':
        return 2, 2
    if op == 'rpow':
        return 2, 2
    if op in ('mul', 'rmul', 'truediv', 'floordiv'):
        # products/quotients of two symbolic values are nonlinear: the factor is a concrete constant
        # (the arithmetic itself is not the subject; see ASSUMPTIONS)
        a = (3 if sk in ('int', 'i64') else 1.5) if i % 2 == 0 else (-2 if sk in ('int', 'i64') else 0.5)
        if sk == 'i64':
            a = np.int64(a)
        elif sk == 'f32':
            a = np.float32(a)
        return a, a
    if sk == 'i64':
        # a typed NumPy scalar operand: the result dtype follows NumPy's promotion with that type
        a = e.int('a%d' % i)
        e.assume(sand(a >= -2 ** 40, a <= 2 ** 40))
        e.prefer.append(sand(a >= -3, a <= 5))
        a = snp.mkscalar(a, np.dtype('int64'))
        return a, a
    if sk == 'f32':
        c = e.choice('f32_%d' % i, [0, 1, 2])
        a = np.float32([0.5, 1.5, -2.0][c])
        return a, a
    if sk == 'int':
        a = e.int('a%d' % i)
        e.prefer.append(sand(a >= -3, a <= 5))
    else:
        a = e.real('a%d' % i)
        e.prefer.append(sor(a == core.SymReal(z3.RealVal('1/2')), a == core.SymReal(z3.RealVal('3/2')),
                            a == SymReal(z3.RealVal(2))))
    return a, a


def _rows(e, item, n):
    if item == 'int':
        i = e.int('i')
        e.assume(sand(i >= 0, i < n))
        return i, 1, (lambda j: i), (lambda ev: ['int', ev(i)])
    if item == 'slice':
        a, b = e.int('start'), e.int('stop')
        e.assume(sand(a >= 0, a <= n, b >= 0, b <= n))
        a1, b1 = a, b
        e.assume(b1 - a1 >= 1)
        e.prefer.append(b1 - a1 <= 4)
        return slice(a, b), b1 - a1, (lambda j: a1 + j), (lambda ev: ['slice', ev(a), ev(b)])
    x0, x1 = e.int('x0', 0), e.int('x1')
    e.assume(sand(x0 < x1, x1 < n))
    return [x0, x1], 2, (lambda j: lam._select([x0, x1], j)), (lambda ev: ['list', [ev(x0), ev(x1)]])


def _expected(rec, prog, row, c):
    """(value, dtype) of expr(array)[row, c] by applying the program to the true element"""
    colmap = list(range(rec.nc))
    steps = []
    for op, arg in prog:
        if op == 'cols':
            colmap = [colmap[k] for k in arg['idx']]
        else:
            steps.append((op, arg))
    a = snp._obj((1, 1))
    a[0, 0] = snp._strip(rec.T(row, colmap[c]))
    x = snp.ndarray(a, rec.dtype)
    for op, arg in steps:
        x = apply_op(x, op, arg)
    return x.a[0, 0], x.dtype, len(colmap)


def _check_read(e, rec, reader, prog, item, L, rowf, label):
    out = snp.asarray(reader[item])
    j = e.int('j_' + label)
    g = sand(j >= 0, j < L)
    row = rowf(j)
    _, dt, ncols = _expected(rec, prog, row, 0)
    obl = [(out.ndim == 2, label + ': not 2-D'), (out.shape[0] == L, label + ': wrong number of rows'),
           (out.shape[1] == ncols, label + ': wrong number of columns'),
           (out.dtype == dt, label + ': dtype %s, eager evaluation gives %s' % (out.dtype, dt))]
    for c in range(ncols):
        v, _, _ = _expected(rec, prog, row, c)
        obl.append((implies(g, lam.elem(out, (j, c)) == v), label + ': wrong value in column %d' % c))
    e.prove_all(obl)


def run_config(cfg, e):
    pkg = env.make_pkg(record=e.functions)
    e.uf_division = True

    def fn():
        vfs.reset()
        _MODE['xp'] = snp
        rec = SymRecording(e, cfg['backend'], cfg['K'], cfg['nc'], cfg['dtype'])
        item, L, rowf, iteminfo = _rows(e, cfg['item'], rec.n)
        progs = {}

        def case(ev):
            def conv(p):
                return [[op, (ev(a) if a is not None and not isinstance(a, (list, dict)) else a)] for op, a in p]
            return dict(rec.case(ev), item=iteminfo(ev), kind=cfg['kind'], scalar=cfg['scalar'],
                        progs={k: conv(v) for k, v in progs.items()})
        e.case_builder = case
        try:
            reader = rec.make_reader(pkg)
            if cfg['kind'] == 'prog':
                r = reader
                prog = []
                width = rec.nc
                for i in range(cfg['depth']):
                    oi = cfg['first'] if i == 0 else (cfg['second'] if (i == 1 and 'second' in cfg) else
                                                      e.choice('op%d' % i, list(range(len(OPS)))))
                    op = OPS[oi]
                    arg, parg = _mkarg(e, op, cfg['scalar'], i, width, cfg.get('col0'))
                    if op == 'cols':
                        width = len(arg['idx'])
                    r2 = apply_op(r, op, arg)
                    prog = prog + [(op, parg)]
                    progs['p'] = prog
                    if type(r2) is not type(reader):
                        e.fail('%s does not yield a reader' % op)
                    r = r2
                    _check_read(e, rec, r, prog, item, L, rowf, 'depth%d' % (i + 1))
            else:
                # derivation tree: parent -> {child1, child2}, child1 -> grandchild
                names = ['parent', 'child1', 'child2', 'grandchild']
                ops = []
                width = rec.nc
                for i, nm in enumerate(names):
                    oi = cfg['first'] if i == 0 else (cfg['second'] if i == 1 else e.choice(
                        'op%d' % i, TREE_OPS))
                    ops.append(OPS[oi])
                a0, p0 = _mkarg(e, ops[0], cfg['scalar'], 0, rec.nc)
                parent = apply_op(reader, ops[0], a0)
                pp = [(ops[0], p0)]
                progs['parent'] = pp
                wp = len(a0['idx']) if ops[0] == 'cols' else rec.nc
                nops_parent = len(parent._ops)
                _check_read(e, rec, parent, pp, item, L, rowf, 'parent')
                a1, p1 = _mkarg(e, ops[1], cfg['scalar'], 1, wp)
                c1 = apply_op(parent, ops[1], a1)
                pc1 = pp + [(ops[1], p1)]
                progs['child1'] = pc1
                w1 = len(a1['idx']) if ops[1] == 'cols' else wp
                nops_c1 = len(c1._ops)
                _check_read(e, rec, parent, pp, item, L, rowf, 'parent after child1')
                a2, p2 = _mkarg(e, ops[2], cfg['scalar'], 2, wp)
                c2 = apply_op(parent, ops[2], a2)
                pc2 = pp + [(ops[2], p2)]
                progs['child2'] = pc2
                a3, p3 = _mkarg(e, ops[3], cfg['scalar'], 3, w1)
                g = apply_op(c1, ops[3], a3)
                pg = pc1 + [(ops[3], p3)]
                progs['grandchild'] = pg
                _check_read(e, rec, parent, pp, item, L, rowf, 'parent after all derivations')
                _check_read(e, rec, c1, pc1, item, L, rowf, 'child1 after sibling and grandchild')
                _check_read(e, rec, c2, pc2, item, L, rowf, 'child2')
                _check_read(e, rec, g, pg, item, L, rowf, 'grandchild')
                e.prove(len(parent._ops) == nops_parent and len(c1._ops) == nops_c1,
                        'deferred-operation list of a reader changed when deriving from it')
                _check_read(e, rec, reader, [], item, L, rowf, 'base reader after derivations')
        except Exception as ex:
            e.fail('exception %r' % (ex,))
        e.witness()

    e.explore(fn)


def _conc_arg(op, a, scalar):
    if a is None or isinstance(a, (list, dict)):
        return a
    if op in ('pow', 'rpow'):
        return int(a)
    if scalar == 'i64':
        return np.int64(a)
    if scalar == 'f32':
        return np.float32(a)
    return int(a) if scalar == 'int' else float(a)


def replay(case):
    _MODE['xp'] = np
    rr = RealRecording(case)
    try:
        reader = rr.reader()
        it = case['item']
        item = it[1] if it[0] == 'int' else (slice(it[1], it[2]) if it[0] == 'slice' else list(it[1]))
        full = rr.data

        def eager(prog):
            try:
                x = full
                for op, a in prog:
                    x = apply_op(x, op, _conc_arg(op, a, case['scalar']))
                x = x[item]
            except Exception:
                # the expression is undefined on some row that is not selected (e.g. 2 ** negative int):
                # elementwise operators commute with row selection, so select first
                x = full[item]
                x = x[np.newaxis, :] if x.ndim == 1 else x
                for op, a in prog:
                    x = apply_op(x, op, _conc_arg(op, a, case['scalar']))
            return x[np.newaxis, :] if x.ndim == 1 else x

        def build(base, prog):
            r = base
            for op, a in prog:
                r = apply_op(r, op, _conc_arg(op, a, case['scalar']))
            return r

        def compare(r, prog, label):
            with np.errstate(all='ignore'):
                try:
                    want = eager(prog)
                    werr = None
                except Exception as ex:
                    want, werr = None, type(ex)
                try:
                    got = np.asarray(r[item])
                    gerr = None
                except Exception as ex:
                    got, gerr = None, type(ex)
            if werr or gerr:
                return None if werr == gerr else '%s: lazy raised %s, eager raised %s (program %s)' % (
                    label, gerr, werr, prog)
            if got.shape != want.shape or got.dtype != want.dtype or not np.array_equal(got, want, equal_nan=True):
                return '%s: program %s on reader gives %s %s, eager NumPy gives %s %s' % (
                    label, prog, got.dtype, got.tolist()[:3], want.dtype, want.tolist()[:3])
            return None
        progs = case['progs']
        if case['kind'] == 'prog':
            prog = progs.get('p', [])
            for d in range(1, len(prog) + 1):
                r = build(reader, prog[:d])
                if type(r) is not type(reader):
                    return 'not a reader'
                m = compare(r, prog[:d], 'depth %d' % d)
                if m:
                    return m
            return None
        pp = progs.get('parent')
        if pp is None:
            return None
        parent = build(reader, pp)
        n0 = len(parent._ops)
        m = compare(parent, pp, 'parent')
        if m:
            return m
        rs = {'parent': (parent, pp)}
        if 'child1' in progs:
            c1 = build(parent, progs['child1'][len(pp):])
            rs['child1'] = (c1, progs['child1'])
        if 'child2' in progs:
            rs['child2'] = (build(parent, progs['child2'][len(pp):]), progs['child2'])
        if 'grandchild' in progs:
            rs['grandchild'] = (build(rs['child1'][0], progs['grandchild'][len(progs['child1']):]),
                                progs['grandchild'])
        for k, (r, p) in rs.items():
            m = compare(r, p, k + ' after all derivations')
            if m:
                return m
        if len(parent._ops) != n0:
            return 'parent ops list changed'
        return compare(reader, [], 'base reader')
    finally:
        rr.close()


if __name__ == '__main__':
    sys.exit(harness.main('checks.c02'))
