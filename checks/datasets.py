"""Symbolic KiloSort/phy (or ALF-named) dataset directories on the virtual file system, and the
matching real directories for replays (C04, C10, C13, C14)."""
import os
import shutil
import tempfile
import itertools
import z3
import numpy as np

from symx import core, vfs, lam, symnp as snp
from symx.core import SymInt, SymReal, SymBool, sand, sor, ite

RATE = 100.0       # sampling rate of the generated datasets (exact in binary)

KS = {'spike_times': 'spike_times.npy', 'spike_templates': 'spike_templates.npy',
      'spike_clusters': 'spike_clusters.npy', 'amplitudes': 'amplitudes.npy', 'channel_map': 'channel_map.npy',
      'channel_positions': 'channel_positions.npy', 'channel_shanks': 'channel_shanks.npy',
      'channel_probe': 'channel_probe.npy', 'templates': 'templates.npy', 'whitening_mat': 'whitening_mat.npy',
      'similar_templates': 'similar_templates.npy', 'pc_features': 'pc_features.npy',
      'pc_feature_ind': 'pc_feature_ind.npy', 'template_features': 'template_features.npy',
      'template_feature_ind': 'template_feature_ind.npy'}
ALF = dict(KS, spike_times='spikes.times.npy', spike_templates='spikes.templates.npy',
           spike_clusters='spikes.clusters.npy', amplitudes='spikes.amps.npy', channel_map='channels.rawInd.npy',
           channel_positions='channels.localCoordinates.npy', channel_shanks='channels.shanks.npy',
           channel_probe='channels.probes.npy', templates='templates.waveforms.npy')

WM = {'I': None, 'diag': lambda nc: np.diag([2.0, 0.5, 4.0, 1.0][:nc]),
      'dense': lambda nc: np.array([[2.0, 1.0, 0, 0], [0, 1.0, 0.5, 0], [0, 0, 1.0, 0], [0, 0, 0, 2.0]])[:nc, :nc]}


def _arr(vals, shape, dt):
    return snp.ndarray(snp._fromlist(list(vals), shape), dt)


class DS(object):
    """descriptor of a generated dataset: plain Python lists of (symbolic) values"""


def build(e, cfg, d='/ds'):
    """cfg keys: names ('ks'|'alf'), colvec (bool), ns, T, nc, ncd, nsw, optional {name: 'yes'|'no'|'sym'},
    id_dtype, time_dtype, sparse (bool), raw (bool), curated (bool), nan (None|'amplitudes'|'template'|...),
    wm ('I'|'diag'|'dense'), extra_attr (bool)"""
    fs = vfs.fs()
    fs.mkdir(d)
    ds = DS()
    ds.dir, ds.cfg = d, cfg
    names = KS if cfg.get('names', 'ks') == 'ks' else ALF
    ds.names = names
    ns, T, nc, nsw = cfg['ns'], cfg['T'], cfg['nc'], cfg['nsw']
    ncd = cfg.get('ncd', nc)
    colvec = cfg.get('colvec', False)
    idt, tdt = cfg.get('id_dtype', 'int32'), cfg.get('time_dtype', 'uint64')
    opt = cfg.get('optional', {})
    ds.presence = {}
    sym = cfg.get('symbolic', True)
    flags = {}
    groups = cfg.get('sym', ['spikes', 'ids', 'templates', 'channels'])

    def vec(n):
        return (n, 1) if colvec else (n,)

    def add(key, arr, optional_key=None, fname=None):
        ent = vfs.npy_entry(arr)
        mode = opt.get(optional_key or key, 'yes')
        if mode == 'no':
            ds.presence[key] = False
            return None
        if mode == 'sym':
            gk = optional_key or key
            if gk not in flags:
                flags[gk] = e.bool('has_' + gk)
            ent.present = flags[gk]
        ds.presence[key] = ent.present
        fs.add('%s/%s' % (d, fname or names[key]), ent)
        return ent

    # ---- spikes ----
    if sym and 'spikes' in groups:
        ks = []
        prev = 0
        for i in range(ns):
            k = e.int('k%d' % i, 0, 2 ** 40)
            if not cfg.get('allow_unsorted'):
                e.assume(k >= prev)
            prev = k
            ks.append(k)
        if cfg.get('names', 'ks') == 'alf':
            # k/100*100 is below k in floating point for these values: truncation instead of rounding shows in replays
            for k_, v_ in zip(ks, (29, 57, 58)):
                e.prefer.insert(0, k_ == v_)
        e.prefer.append(sand(*[k <= 40 for k in ks]))
        am = [e.real('am%d' % i) for i in range(ns)]
        for a in am:
            e.prefer.append(sor(*[a == SymReal(z3.RealVal(v)) for v in (1, 2, 3)]))
    else:
        ks = [3 + 7 * i for i in range(ns)]
        am = [1.0 + 0.5 * i for i in range(ns)]
    symids = sym and 'ids' in groups
    if symids:
        st = [e.int('st%d' % i, 0, T - 1) for i in range(ns)]
    else:
        st = [i % T for i in range(ns)]
        st[-1] = T - 1
    if cfg.get('curated'):
        sc = [e.int('sc%d' % i, 0, T + 1) for i in range(ns)] if symids else [(2 * i) % (T + 2) for i in range(ns)]
    else:
        sc = list(st)
    ds.ks, ds.st, ds.sc, ds.am = ks, st, sc, am
    if cfg.get('names', 'ks') == 'ks':
        add('spike_times', _arr(ks, vec(ns), tdt))
    else:
        # ALF: seconds; samples file optional
        secs = [SymReal(z3.ToReal(core.term_of(k)) / z3.RealVal(str(RATE))) if isinstance(k, core.Sym)
                else k / RATE for k in ks]
        add('spike_times', _arr(secs, vec(ns), 'float64'))
        add('spike_samples', _arr(ks, vec(ns), tdt), 'spike_samples', 'spikes.samples.npy')
    add('spike_templates', _arr(st, vec(ns), idt))
    add('spike_clusters', _arr(sc, vec(ns), idt))
    nan = cfg.get('nan')
    amv = list(am)
    if nan == 'amplitudes':
        amv[0] = float('nan')
        if ns > 1:
            amv[-1] = float('inf')
    ds.amv = amv
    add('amplitudes', _arr(amv, vec(ns), cfg.get('amp_dtype', 'float64')))
    # ---- channels ----
    merged = cfg.get('merged')          # channel counts per probe of a merged dataset
    if merged:
        # layout written by Merger: probe blocks, raw ids of block k shifted by the maximum raw id of block k-1
        assert sum(merged) == nc
        cm, probes, orig = [], [], []
        off = 0
        for pi, cp_ in enumerate(merged):
            if sym and 'channels' in groups:
                om = [e.int('om%d_%d' % (pi, c), 0, cfg.get('om_hi', cp_ + 1)) for c in range(cp_)]
                if cfg.get('om_hi'):
                    for v in om:
                        e.prefer.append(v <= cp_ + 1)
                for a, b in itertools.combinations(om, 2):
                    e.assume(a != b)
            else:
                om = list(range(cp_))[::-1] if pi % 2 else list(range(cp_))
            orig.append(om)
            blk = [v + off for v in om]
            cm += blk
            probes += [pi] * cp_
            mx = blk[0]
            for v in blk[1:]:
                mx = ite(v > mx, v, mx) if isinstance(v, core.Sym) or isinstance(mx, core.Sym) else max(v, mx)
            off = mx
        ds.orig_maps = orig
        ncd = cfg['ncd'] = sum(cfg.get('om_hi', cp_ + 1) + 1 for cp_ in merged)
        pos = []
        for pi, cp_ in enumerate(merged):
            for c in range(cp_):
                pos.append([cfg.get('probe_dx', 100.0) * pi + 10.0 * (c % 2), 20.0 * c])
    else:
        if sym and 'channels' in groups:
            cm = [e.int('cm%d' % c, 0, ncd - 1) for c in range(nc)]
            for a, b in itertools.combinations(cm, 2):
                e.assume(a != b)
        else:
            cm = list(range(ncd))[::-1][:nc]
        probes = [0] * nc
        pos = cfg.get('positions') or [[10.0 * (c % 2), 20.0 * c] for c in range(nc)]
    ds.cm = cm
    add('channel_map', _arr(cm, vec(nc), cfg.get('map_dtype', 'int32')))
    ds.pos = pos
    add('channel_positions', _arr([v for xy in pos for v in xy], (nc, 2), 'float64'))
    shanks = [c % 2 for c in range(nc)]
    ds.shanks, ds.probes = shanks, probes
    add('channel_shanks', _arr(shanks, vec(nc), 'int32'))
    add('channel_probe', _arr(probes, vec(nc), cfg.get('probe_dtype', 'int32')))
    # ---- templates ----
    if sym and 'templates' in groups:
        tv = [e.real('w%d' % k) for k in range(T * nsw * nc)]
        for v in tv:
            e.prefer.append(sor(*[v == SymReal(z3.RealVal(x)) for x in (-1, 1, 2, 3)]))
    else:
        tv = [float(((k * 5) % 7) - 3 + (4 if k % (nsw * nc) == (k // (nsw * nc)) % nc else 0))
              for k in range(T * nsw * nc)]
    tvf = list(tv)
    if nan == 'template':
        for k in range(nsw * nc):
            tvf[k] = float('nan')        # template 0 entirely NaN
    ds.tv, ds.tvf = tv, tvf
    add('templates', _arr(tvf, (T, nsw, nc), cfg.get('tpl_dtype', 'float32')))
    if cfg.get('sparse'):
        ti = [(t + c) % nc for t in range(T) for c in range(nc)]
        ds.template_ind = ti
        add('template_ind', _arr(ti, (T, nc), 'int32'), 'template_ind',
            'template_ind.npy' if cfg.get('names', 'ks') == 'ks' else 'templates.waveformsChannels.npy')
    # ---- whitening / similarity ----
    wm = WM[cfg.get('wm', 'I')]
    ds.wm = None if wm is None else wm(nc)
    if ds.wm is not None:
        add('whitening_mat', snp.asarray(ds.wm))
    else:
        ds.presence['whitening_mat'] = False
    sim = [float((i + j) % 3) for i in range(T) for j in range(T)]
    ds.sim = sim
    add('similar_templates', _arr(sim, (T, T), 'float64'))
    # ---- features ----
    ncl, npcs = 2, 2
    ds.ncl, ds.npcs = ncl, npcs
    fv = [float((k % 5) - 1) for k in range(ns * npcs * ncl)]
    ds.fv = fv
    add('pc_features', _arr(fv, (ns, npcs, ncl), 'float32'))
    pci = [(t + k) % nc for t in range(T) for k in range(ncl)]
    ds.pci = pci
    add('pc_feature_ind', _arr(pci, (T, ncl), 'int32'), 'pc_features')
    tfv = [float(k % 4) for k in range(ns * ncl)]
    ds.tfv = tfv
    add('template_features', _arr(tfv, (ns, ncl), 'float32'))
    tfi = [(t + k) % T for t in range(T) for k in range(ncl)]
    ds.tfi = tfi
    add('template_feature_ind', _arr(tfi, (T, ncl), 'int32'), 'template_features')
    # ---- extra spike attribute arrays ----
    ds.extra = {}
    if cfg.get('extra_attr'):
        xv = [e.real('xa%d' % i) for i in range(ns)] if (sym and 'spikes' in groups) else [0.25 * i for i in range(ns)]
        ds.extra['depthz'] = xv
        fs.add(d + '/spike_depthz.npy', vfs.npy_entry(_arr(xv, vec(ns), 'float64')))
        fs.add(d + '/spike_badlen.npy', vfs.npy_entry(_arr([1.0] * (ns + 1), (ns + 1,), 'float64')))
    # ---- raw data ----
    ds.raw = None
    rawmode = opt.get('raw', 'yes' if cfg.get('raw') else 'no')
    dat_line = 'dat_path = []\n'
    if rawmode != 'no':
        D = z3.Function('Raw', z3.IntSort(), z3.IntSort(), z3.IntSort())      # (file, byte offset) -> value
        isz = 2
        nparts = cfg.get('raw_parts', 1)
        sizes = []
        for pi in range(nparts):
            s_ = e.int('n_raw%d' % pi, 1, 59999 // nparts) if sym else 60   # one default chunk in total (chunking: C16)
            if sym:
                e.prefer.append(s_ <= 32)
            sizes.append(s_)
        nr = sizes[0]
        for s_ in sizes[1:]:
            nr = nr + s_
        if sym and not isinstance(ks[-1], core.Sym):
            e.assume(nr > ks[-1])
        names_ = []
        for pi, s_ in enumerate(sizes):
            fn_ = 'data.bin' if nparts == 1 else 'data%d.bin' % pi
            ent = vfs.raw_entry(s_ * ncd * isz, (lambda pi: lambda o, dt: SymInt(D(pi, core.term_of(o))))(pi))
            fs.add(d + '/' + fn_, ent)
            names_.append(fn_)
        bounds = [0]
        for s_ in sizes:
            bounds.append(bounds[-1] + s_)

        def raw_elem(row, col):
            """raw sample at (row of the concatenated recording, raw column)"""
            r = None
            for pi in range(nparts - 1, -1, -1):
                v = SymInt(D(pi, core.term_of(((row - bounds[pi]) * ncd + col) * isz)))
                r = v if r is None else ite(row < bounds[pi + 1], v, r)
            return r
        ds.raw = (raw_elem, nr, ncd, isz)
        ds.raw_sizes = sizes
        dat_line = 'dat_path = %s\n' % (repr(names_[0]) if nparts == 1 else repr(names_))
    ds.params_text = (dat_line + 'n_channels_dat = %d\ndtype = "int16"\noffset = 0\nsample_rate = %r\n'
                      'hp_filtered = False\n' % (ncd, RATE))
    fs.add(d + '/params.py', vfs.Entry('text', text=ds.params_text))
    return ds


def case_of(ev, ds):
    c = {'cfg': ds.cfg, 'orig_maps': [ev(m) for m in getattr(ds, 'orig_maps', [])], 'ks': ev(ds.ks), 'st': ev(ds.st), 'sc': ev(ds.sc), 'am': ev(ds.am), 'cm': ev(ds.cm),
         'tv': ev(ds.tv), 'presence': {k: (v if isinstance(v, bool) else bool(ev(v))) for k, v in ds.presence.items()},
         'extra': {k: ev(v) for k, v in ds.extra.items()}}
    if ds.raw is not None:
        c['n_raw'] = ev(ds.raw[1])
        c['raw_sizes'] = ev(ds.raw_sizes)
    return c


# ------------------------------------------------------------------------------------------
# real directory
# ------------------------------------------------------------------------------------------

class RealDS(object):
    def __init__(self, case):
        from symx.loader import real_phylib
        real_phylib()
        cfg = case['cfg']
        self.cfg, self.case = cfg, case
        self.root = tempfile.mkdtemp(prefix='phyv_ds_')
        d = self.dir = os.path.join(self.root, 'ds')
        os.makedirs(d)
        names = KS if cfg.get('names', 'ks') == 'ks' else ALF
        ns, T, nc, nsw = cfg['ns'], cfg['T'], cfg['nc'], cfg['nsw']
        ncd = cfg.get('ncd', nc)
        colvec = cfg.get('colvec', False)
        idt, tdt = cfg.get('id_dtype', 'int32'), cfg.get('time_dtype', 'uint64')
        pres = case['presence']

        def vec(a):
            return a.reshape(-1, 1) if colvec else a

        def save(key, arr, fname=None):
            if pres.get(key, True):
                np.save(os.path.join(d, fname or names[key]), arr)
        ks = case['ks']
        if n_too_big(ks):
            raise core.TooLarge('spike samples %s' % ks)
        if cfg.get('names', 'ks') == 'ks':
            save('spike_times', vec(np.array(ks, dtype=tdt)))
        else:
            save('spike_times', vec(np.array(ks, dtype=np.float64) / RATE))
            save('spike_samples', vec(np.array(ks, dtype=tdt)), 'spikes.samples.npy')
        save('spike_templates', vec(np.array(case['st'], dtype=idt)))
        save('spike_clusters', vec(np.array(case['sc'], dtype=idt)))
        am = np.array(case['am'], dtype=cfg.get('amp_dtype', 'float64'))
        if cfg.get('nan') == 'amplitudes':
            am[0] = np.nan
            if ns > 1:
                am[-1] = np.inf
        self.am_file = am.copy()
        save('amplitudes', vec(am))
        save('channel_map', vec(np.array(case['cm'], dtype=cfg.get('map_dtype', 'int32'))))
        merged = cfg.get('merged')
        if merged:
            pos = np.array([[cfg.get('probe_dx', 100.0) * pi + 10.0 * (c % 2), 20.0 * c] for pi, cp_ in enumerate(merged) for c in range(cp_)])
            prb = np.array([pi for pi, cp_ in enumerate(merged) for c in range(cp_)], dtype=cfg.get('probe_dtype', 'int32'))
        else:
            pos = np.array(cfg.get('positions') or [[10.0 * (c % 2), 20.0 * c] for c in range(nc)])
            prb = np.zeros(nc, dtype=np.int32)
        self.pos, self.probes = pos, prb
        save('channel_positions', pos)
        save('channel_shanks', vec(np.array([c % 2 for c in range(nc)], dtype=np.int32)))
        save('channel_probe', vec(prb))
        tv = np.array(case['tv'], dtype=cfg.get('tpl_dtype', 'float32')).reshape(T, nsw, nc)
        if cfg.get('nan') == 'template':
            tv[0] = np.nan
        self.tpl_file = tv.copy()
        save('templates', tv)
        if cfg.get('sparse'):
            ti = np.array([(t + c) % nc for t in range(T) for c in range(nc)], dtype=np.int32).reshape(T, nc)
            save('template_ind', ti, 'template_ind.npy' if cfg.get('names', 'ks') == 'ks'
                 else 'templates.waveformsChannels.npy')
        wm = WM[cfg.get('wm', 'I')]
        self.wm = None if wm is None else wm(nc)
        if self.wm is not None:
            save('whitening_mat', self.wm)
        save('similar_templates', np.array([float((i + j) % 3) for i in range(T) for j in range(T)]).reshape(T, T))
        ncl, npcs = 2, 2
        save('pc_features', np.array([float((k % 5) - 1) for k in range(ns * npcs * ncl)],
                                     dtype=np.float32).reshape(ns, npcs, ncl))
        if pres.get('pc_features', True):
            np.save(os.path.join(d, 'pc_feature_ind.npy'),
                    np.array([(t + k) % nc for t in range(T) for k in range(ncl)], dtype=np.int32).reshape(T, ncl))
        save('template_features', np.array([float(k % 4) for k in range(ns * ncl)], dtype=np.float32).reshape(ns, ncl))
        if pres.get('template_features', True):
            np.save(os.path.join(d, 'template_feature_ind.npy'),
                    np.array([(t + k) % T for t in range(T) for k in range(ncl)], dtype=np.int32).reshape(T, ncl))
        for k, v in case.get('extra', {}).items():
            np.save(os.path.join(d, 'spike_%s.npy' % k), vec(np.array(v, dtype=np.float64)))
            np.save(os.path.join(d, 'spike_badlen.npy'), np.ones(ns + 1))
        dat_line = 'dat_path = []\n'
        self.rawdata = None
        if 'n_raw' in case and pres.get('raw', True):
            nr = case['n_raw']
            if nr * ncd > 4_000_000:
                raise core.TooLarge('raw rows %d' % nr)
            raw = ((np.arange(nr * ncd) * 7 + 3) % 2001 - 1000).astype(np.int16).reshape(nr, ncd)
            sizes = case.get('raw_sizes', [nr])
            names_ = []
            i0 = 0
            for pi, s_ in enumerate(sizes):
                fn_ = 'data.bin' if len(sizes) == 1 else 'data%d.bin' % pi
                raw[i0:i0 + s_].tofile(os.path.join(d, fn_))
                i0 += s_
                names_.append(fn_)
            self.rawdata = raw
            dat_line = 'dat_path = %s\n' % (repr(names_[0]) if len(sizes) == 1 else repr(names_))
        with open(os.path.join(d, 'params.py'), 'w') as f:
            f.write(dat_line + 'n_channels_dat = %d\ndtype = "int16"\noffset = 0\nsample_rate = %r\n'
                    'hp_filtered = False\n' % (ncd, RATE))

    def snapshot(self):
        import hashlib
        return {fn: hashlib.md5(open(os.path.join(self.dir, fn), 'rb').read()).hexdigest()
                for fn in sorted(os.listdir(self.dir))}

    def close(self):
        shutil.rmtree(self.root, ignore_errors=True)


def n_too_big(ks):
    return any(k > 2 ** 40 for k in ks)
