"""C08 Curated clusters get the right template provenance and waveforms."""
import sys
import itertools
import z3
import numpy as np

from symx import core, env, lam, harness, vfs, symnp as snp
from symx.core import SymInt, SymReal, sand, sor, snot, implies, ite, ssum
from checks import models, datasets

PID = 'C08'
FUNCTIONS = ['phylib/io/model.py:' + f for f in (
    'TemplateModel.get_merge_map', 'TemplateModel.cluster_waveforms',
    'TemplateModel.get_cluster_mean_waveforms', 'TemplateModel.get_template_counts',
    'TemplateModel.get_cluster_spikes', 'TemplateModel.get_template',
    'TemplateModel._get_template_dense', 'TemplateModel._find_best_channels')]
BOUNDS = {
    'quick': {'spikes': '1..4 (concrete template sets) / 1..2 (symbolic template values)', 'templates': '2..3',
              'cluster_ids': '[0, T+2)', 'channels': '2..3', 'waveform_samples': 2,
              'unbounded': ['template values (reals) in the symbolic-template configurations']},
    'thorough': {'spikes': '1..5 (concrete template sets) / 1..3 (symbolic template values)', 'templates': '2..3',
                 'cluster_ids': '[0, T+2)', 'channels': '2..3', 'waveform_samples': 2,
                 'unbounded': ['template values (reals) in the symbolic-template configurations']},
}
ASSUMPTIONS = [
    'any history of merges/splits/reassignments is covered as any resulting pair (spike_templates, '
    'spike_clusters): template ids in [0,T), cluster ids in [0,T+2), all symbolic (solver-enumerated by the '
    'dictionary/gather operations of the code)',
    'dense templates with signal (every template has a positive peak amplitude); geometry, shanks and whitening '
    'from a fixed concrete set',
    'the channel-restricted waveform of a template is get_template(t, unwhiten=False) (C05)',
    'the merged-vs-identical branch of _load_data is exercised through the real loader (configuration kind=load) '
    'on a generated dataset with symbolic assignments',
    'forms added after seeding rounds: direct get_cluster_mean_waveforms(c) in unwhitened units after the whitened pass (non-identity whitening); uint32 channel positions',
    'round 7: one configuration with 260 templates, spike_templates stored as uint16, spikes on templates {0, 257, 258} and clusters {0, 258, 259, 260}; obligations restricted to the ids in play; loop bound 400',
]
STUBS = []
OUTSIDE = ['float rounding of the weighted mean', 'more spikes/templates than the bound']
WITNESS_CAP = {'quick': 40, 'thorough': 80}


def configs(tier):
    quick = tier == 'quick'
    out = []
    # (A) concrete templates from a fixed set, symbolic assignments
    for n in ((1, 2, 3, 4) if quick else (1, 2, 3, 4, 5)):
        for T in (2, 3):
            for nc in (2, 3):
                for variant in (0, 1):
                    if n >= 4 and (T == 3 or nc == 3 and variant == 1):
                        continue
                    if quick and n >= 4 and (nc == 3 or variant == 1):
                        continue
                    if quick and n == 3 and T == 3 and variant == 1:
                        continue
                    if n >= 5 and (nc == 3 or variant == 1):
                        continue
                    geom = ['line', 'twoshank', 'square'][(n + T + nc + variant) % 3]
                    wmi = ['I', 'dense'][(n + variant) % 2]
                    base = {'n': n, 'T': T, 'nc': nc, 'nsw': 2, 'ncl': 2 if variant else nc, 'geom': geom,
                            'wmi': wmi, 'templates': 'concrete%d' % variant}
                    if n >= 3:
                        for a in range(T):
                            for b in range(T + 2):
                                out.append(dict(base, fix0=[a, b]))
                    else:
                        out.append(base)
    # channel positions stored as unsigned integers (nearest-channel sets of the merged templates)
    for n in (2, 3):
        out.append({'n': n, 'T': 2, 'nc': 3, 'nsw': 2, 'ncl': 2, 'geom': 'zigzag_u32', 'wmi': 'I', 'templates': 'concrete0'})
    # many templates, ids stored in 16 bits: products of two ids pass 65535 (focus on the clusters/templates in play)
    out.append({'n': 2, 'T': 260, 'nc': 2, 'nsw': 2, 'ncl': 2, 'geom': 'line', 'wmi': 'I', 'templates': 'big',
                'st_dtype': 'uint16', 'focus': {'clusters': [0, 1, 258, 259, 260], 'templates': [0, 1, 257, 258]}})
    # (B) symbolic template values, fewer spikes
    for n in ((1, 2) if quick else (1, 2, 3)):
        for nc in (2, 3):
            if n == 3 and nc == 3:
                continue
            out.append({'n': n, 'T': 2, 'nc': nc, 'nsw': 2, 'ncl': 2, 'geom': 'line' if nc == 2 else 'square',
                        'wmi': 'dense', 'templates': 'symbolic'})
    # (C) the merged-vs-identical branch of _load_data, through the real loader on the virtual file system
    for T in ((2,) if quick else (2, 3)):
        out.append({'kind': 'load', 'n': 3, 'T': T, 'nc': 3, 'nsw': 2, 'templates': 'loader'})
    return out


def _concrete_templates(variant, T, nsw, nc):
    rng = np.random.RandomState(100 + variant)
    d = rng.randint(-3, 4, size=(T, nsw, nc)).astype(np.float64)
    for t in range(T):
        d[t, 0, (t + variant) % nc] += 4      # every template has signal and a distinct-ish peak
    if variant == 1 and T >= 2:
        d[1] = d[0] * 1.0
        d[1, 1, 0] -= 1
    return d


def _big_templates(T, nsw, nc):
    d = np.zeros((T, nsw, nc))
    for t in range(T):
        d[t, 0, t % nc] = 1.0 + (t % 7)
        d[t, 1, (t + 1) % nc] = -1.0 - (t % 3)
    return d


def run_config(cfg, e):
    pkg = env.make_pkg(record=e.functions)
    if cfg.get('focus'):
        e.loop_bound = 400        # the loops over cluster ids run to the highest id
    e.hash_concretize = True
    e.concretize_shapes = True

    def fn_load():
        from symx import vfs as vfs_
        vfs_.reset()
        dcfg = {'ns': cfg['n'], 'T': cfg['T'], 'nc': cfg['nc'], 'nsw': cfg['nsw'], 'names': 'ks', 'sym': ['ids'],
                'curated': True, 'wm': 'I', 'optional': {'pc_features': 'no', 'template_features': 'no'}}
        ds = datasets.build(e, dcfg)
        e.case_builder = lambda ev: dict(cfg, ds=datasets.case_of(ev, ds))
        mod = pkg.load('phylib.io.model')
        try:
            m = mod.load_model(vfs_.VPath(ds.dir + '/params.py'))
        except Exception as ex:
            e.fail('exception %r' % (ex,))
        ns, T = cfg['n'], cfg['T']
        same = sand(*[a == b for a, b in zip(ds.sc, ds.st)])
        if bool(same):
            e.prove(m.sparse_clusters is m.sparse_templates and m.n_clusters == T and not m.merge_map,
                    'identical assignments: cluster waveforms must be the template waveforms, as many clusters as templates')
        else:
            mx = ds.sc[0]
            for v in ds.sc[1:]:
                mx = ite(v > mx, v, mx)
            ncl_ = core.eng().concretize(core.term_of(mx)) + 1
            obl = [(m.sparse_clusters is not m.sparse_templates, 'curated dataset treated as uncurated'),
                   (m.n_clusters == ncl_, 'n_clusters'),
                   (sorted(int(k) for k in m.merge_map.keys()) == list(range(ncl_)), 'merge_map keys')]
            for cl in range(ncl_):
                lst = [int(v) for v in m.merge_map.get(cl, [])]
                for t in range(T):
                    has = sor(*[sand(ds.sc[p_] == cl, ds.st[p_] == t) for p_ in range(ns)])
                    obl.append((has if t in lst else snot(has), 'merge_map[%d] after loading' % cl))
            e.prove_all(obl)
        e.witness()

    def fn():
        if cfg.get('kind') == 'load':
            return fn_load()
        n, T, nc, nsw = cfg['n'], cfg['T'], cfg['nc'], cfg['nsw']
        if cfg['templates'] == 'symbolic':
            data, flat = models.sym_reals(e, 'w', (T, nsw, nc))
        else:
            cd = _big_templates(T, nsw, nc) if cfg['templates'] == 'big' else \
                _concrete_templates(int(cfg['templates'][-1]), T, nsw, nc)
            data, flat = snp.asarray(cd), cd.ravel().tolist()
        st = [e.int('st%d' % i, 0, T - 1) for i in range(n)]
        sc = [e.int('sc%d' % i, 0, T + 1) for i in range(n)]
        focus = cfg.get('focus')
        if focus:
            e.assume(sand(st[0] == 258, sc[0] == 259, sor(*[st[1] == v for v in (0, 257, 258)]),
                          sor(*[sc[1] == v for v in (0, 258, 259, 260)])))
        if cfg.get('fix0'):
            e.assume(sand(st[0] == cfg['fix0'][0], sc[0] == cfg['fix0'][1]))
        m, Bunch = models.build_sym_model(pkg, nc, cfg['geom'], cfg['wmi'], cfg['ncl'])
        m.sparse_templates = Bunch(data=data, cols=None)
        m.spike_templates = snp.ndarray(snp._fromlist(st, (n,)), cfg.get('st_dtype', 'int32'))
        m.spike_clusters = snp.ndarray(snp._fromlist(sc, (n,)), 'int32')
        m.n_templates = T
        m.n_samples_waveforms = nsw
        m.template_ids = snp.unique(m.spike_templates)
        m.cluster_ids = snp.unique(m.spike_clusters)
        # templates with signal
        for t in range(T):
            tw = [[data.a[t, s, c] for c in range(nc)] for s in range(nsw)]
            amp = models.ptp_terms(tw) if nsw > 1 else None
            if amp is not None:
                e.assume(sor(*[a > 0 for a in amp]))
        if nsw == 1:
            return  # peak-to-peak of a 1-sample waveform is 0: no channel restriction possible
        e.case_builder = lambda ev: dict(cfg, data=ev(flat), st=ev(st), sc=ev(sc))
        try:
            mm, nan_idx = m.get_merge_map()
            m.merge_map, m.nan_idx = mm, nan_idx
            sparse = m.cluster_waveforms()
            nclu = int(snp.asarray(m.cluster_ids).a.tolist()[-1]) + 1
        except Exception as ex:
            e.fail('exception %r' % (ex,))
        cdata = snp.asarray(sparse.data)
        e.prove(sorted(int(k) for k in mm.keys()) == list(range(nclu)), 'merge_map keys %s, expected 0..%d' % (
            sorted(mm.keys()), nclu - 1))
        e.prove(cdata.shape == (nclu, nsw, nc), 'cluster waveform array shape %s' % (cdata.shape,))
        nanl = [int(v) for v in snp.asarray(nan_idx).a.tolist()]
        CL = [c for c in focus['clusters'] if c < nclu] if focus else list(range(nclu))
        TL = focus['templates'] if focus else list(range(T))
        obl = []
        for c in CL:
            lst = [int(v) for v in mm[c]]
            obl.append((all(t in TL for t in lst), 'merge_map[%d] = %s lists a template no spike has' % (c, lst)))
            for t in TL:
                has = sor(*[sand(sc[p] == c, st[p] == t) for p in range(n)])
                obl.append((has if t in lst else snot(has), 'template %d wrongly %s merge_map[%d]' % (
                    t, 'in' if t in lst else 'missing from', c)))
            obl.append((len(set(lst)) == len(lst), 'duplicate template in merge_map[%d]' % c))
            empty = snot(sor(*[sc[p] == c for p in range(n)]))
            obl.append((empty if c in nanl else snot(empty), 'cluster %d wrongly %s nan_idx' % (
                c, 'in' if c in nanl else 'missing from')))
        e.prove_all(obl)
        # waveforms
        obl = []
        for c in CL:
            lst = [int(v) for v in mm[c]]
            if len(lst) == 1:
                t0 = lst[0]
                for s in range(nsw):
                    for ch in range(nc):
                        obl.append((cdata.a[c, s, ch] == data.a[t0, s, ch],
                                    'single-template cluster %d does not carry template %d unchanged' % (c, t0)))
            elif len(lst) > 1:
                cnts = [ssum([ite(sand(sc[p] == c, st[p] == t), 1, 0) for p in range(n)]) for t in lst]
                cv = [core.eng().concretize(core.term_of(x)) for x in cnts]
                dom = lst[max(range(len(lst)), key=lambda i: (cv[i], -lst[i]))]
                try:
                    chd = [int(v) for v in snp.asarray(m.get_template(dom, unwhiten=False).channel_ids).a.tolist()]
                    recs = []
                    for t in lst:
                        b = m.get_template(t, unwhiten=False)
                        recs.append(([int(v) for v in snp.asarray(b.channel_ids).a.tolist()], snp.asarray(b.template)))
                except Exception as ex:
                    e.fail('exception in oracle %r' % (ex,))
                tot = sum(cv)
                for s in range(nsw):
                    for ch in range(nc):
                        if ch in chd:
                            acc = SymReal(0)
                            for (chl, tpl), k in zip(recs, cv):
                                if ch in chl:
                                    acc = acc + tpl.a[s, chl.index(ch)] * k
                            obl.append((cdata.a[c, s, ch] * tot == acc,
                                        'merged cluster %d: wrong weighted mean on channel %d' % (c, ch)))
                        else:
                            obl.append((cdata.a[c, s, ch] == 0,
                                        'merged cluster %d: non-zero outside the dominant template channels' % c))
                if cfg['wmi'] != 'I' and cfg['templates'] != 'symbolic':
                    # the same query made directly, afterwards, in the default unwhitened units
                    try:
                        bu = m.get_cluster_mean_waveforms(c)
                        chu = [int(v) for v in snp.asarray(bu.channel_ids).a.tolist()]
                        mwu = snp.asarray(bu.mean_waveforms)
                        chdu = [int(v) for v in snp.asarray(m.get_template(dom, unwhiten=True).channel_ids).a.tolist()]
                        recu = []
                        for t in lst:
                            b = m.get_template(t, unwhiten=True)
                            recu.append(([int(v) for v in snp.asarray(b.channel_ids).a.tolist()], snp.asarray(b.template)))
                    except Exception as ex:
                        e.fail('exception in unwhitened query %r' % (ex,))
                    obl.append((chu == chdu, 'merged cluster %d, unwhitened query: channels %s, dominant template has %s' % (
                        c, chu, chdu)))
                    if chu == chdu:
                        for s in range(nsw):
                            for j, ch in enumerate(chu):
                                acc = SymReal(0)
                                for (chl, tpl), k in zip(recu, cv):
                                    if ch in chl:
                                        acc = acc + tpl.a[s, chl.index(ch)] * k
                                obl.append((mwu.a[s, j] * tot == acc,
                                            'merged cluster %d, unwhitened query after loading: wrong weighted mean on channel %d' % (c, ch)))
            else:
                for s in range(nsw):
                    for ch in range(nc):
                        obl.append((cdata.a[c, s, ch] == 0, 'empty cluster %d has a waveform' % c))
        e.prove_all(obl)
        e.witness()

    e.explore(fn)


def replay(case):
    if case.get('kind') == 'load':
        return _replay_load(case)
    n, T, nc, nsw = case['n'], case['T'], case['nc'], case['nsw']
    from symx.loader import real_phylib
    real_phylib()
    from phylib.utils import Bunch
    data = np.array(case['data'], dtype=np.float64).reshape(T, nsw, nc)
    st, sc = case['st'], case['sc']
    m = models.build_real_model(nc, case['geom'], case['wmi'], case['ncl'])
    m.sparse_templates = Bunch(data=data, cols=None)
    m.spike_templates = np.array(st, dtype=case.get('st_dtype', 'int32'))
    m.spike_clusters = np.array(sc, dtype=np.int32)
    m.n_templates = T
    m.n_samples_waveforms = nsw
    m.template_ids = np.unique(m.spike_templates)
    m.cluster_ids = np.unique(m.spike_clusters)
    try:
        mm, nan_idx = m.get_merge_map()
        m.merge_map, m.nan_idx = mm, nan_idx
        cdata = m.cluster_waveforms().data
    except Exception as ex:
        return 'raised %r' % (ex,)
    nclu = max(sc) + 1
    if sorted(mm.keys()) != list(range(nclu)):
        return 'merge_map keys %s' % sorted(mm.keys())
    for c in range(nclu):
        want = sorted({st[p] for p in range(n) if sc[p] == c})
        if sorted(int(v) for v in mm[c]) != want:
            return 'merge_map[%d] = %s, expected %s (st=%s sc=%s)' % (c, list(mm[c]), want, st, sc)
    wn = [c for c in range(nclu) if c not in sc]
    if sorted(int(v) for v in nan_idx) != wn:
        return 'nan_idx %s, expected %s' % (list(nan_idx), wn)
    for c in range(nclu):
        ts = sorted({st[p] for p in range(n) if sc[p] == c})
        if len(ts) == 1:
            if not np.array_equal(cdata[c], data[ts[0]]):
                return 'single-template cluster %d differs from template %d' % (c, ts[0])
        elif len(ts) > 1:
            cnt = [sum(1 for p in range(n) if sc[p] == c and st[p] == t) for t in ts]
            dom = ts[int(np.argmax(cnt))]
            chd = [int(v) for v in m.get_template(dom, unwhiten=False).channel_ids]
            want = np.zeros((nsw, nc))
            for t, k in zip(ts, cnt):
                b = m.get_template(t, unwhiten=False)
                full = np.zeros((nsw, nc))
                full[:, b.channel_ids] = b.template
                want[:, chd] += k * full[:, chd]
            want /= sum(cnt)
            if not np.allclose(cdata[c], want, atol=1e-5):
                return 'merged cluster %d (templates %s, counts %s): waveform %s, weighted mean is %s' % (
                    c, ts, cnt, cdata[c].tolist(), want.tolist())
            if case['wmi'] != 'I':
                bu = m.get_cluster_mean_waveforms(c)
                chu = [int(v) for v in bu.channel_ids]
                chdu = [int(v) for v in m.get_template(dom, unwhiten=True).channel_ids]
                if chu != chdu:
                    return 'merged cluster %d, unwhitened query: channels %s, dominant template has %s' % (c, chu, chdu)
                wantu = np.zeros((nsw, nc))
                for t, k in zip(ts, cnt):
                    b = m.get_template(t, unwhiten=True)
                    full = np.zeros((nsw, nc))
                    full[:, b.channel_ids] = b.template
                    wantu[:, chdu] += k * full[:, chdu]
                wantu /= sum(cnt)
                if not np.allclose(bu.mean_waveforms, wantu[:, chdu], atol=1e-5):
                    return 'merged cluster %d, unwhitened query after loading: waveform %s, weighted mean is %s' % (
                        c, np.asarray(bu.mean_waveforms).tolist(), wantu[:, chdu].tolist())
        elif np.any(cdata[c] != 0):
            return 'empty cluster %d has a waveform' % c
    return None


def _replay_load(case):
    import os
    rd = datasets.RealDS(case['ds'])
    try:
        from phylib.io import model as mod
        try:
            m = mod.load_model(os.path.join(rd.dir, 'params.py'))
        except Exception as ex:
            return 'load_model raised %r' % (ex,)
        st, sc, T = case['ds']['st'], case['ds']['sc'], case['T']
        try:
            if st == sc:
                if m.sparse_clusters is not m.sparse_templates or m.n_clusters != T:
                    return 'identical assignments not recognised'
                return None
            if m.sparse_clusters is m.sparse_templates:
                return 'curated dataset (clusters %s, templates %s) treated as uncurated' % (sc, st)
            for cl in range(max(sc) + 1):
                want = sorted({st[i] for i in range(len(st)) if sc[i] == cl})
                if sorted(int(v) for v in m.merge_map.get(cl, [])) != want:
                    return 'merge_map[%d] = %s, expected %s' % (cl, list(m.merge_map.get(cl, [])), want)
            return None
        finally:
            m.close()
    finally:
        rd.close()


if __name__ == '__main__':
    sys.exit(harness.main('checks.c08'))
