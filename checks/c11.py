"""C11 Merging probes conserves every spike and renumbers ids disjointly."""
import sys
import os
import itertools
import z3
import numpy as np

from symx import core, env, lam, harness, vfs, symnp as snp
from symx.core import SymInt, SymReal, sand, sor, snot, implies, ite, ssum
from checks import mergelib

PID = 'C11'
FUNCTIONS = ['phylib/io/merge.py:' + f for f in (
    '_concat', '_load_multiple_spike_times', '_load_multiple_spike_arrays', '_load_multiple_files',
    'Merger.__init__', 'Merger._save', 'Merger.write_params', 'Merger.write_probe_desc',
    'Merger.write_spike_times', 'Merger.write_spike_data', 'Merger.write_spike_clusters',
    'Merger.write_cluster_data', 'Merger.merge')] + [
    'phylib/utils/_misc.py:_read_tsv_simple', 'phylib/utils/_misc.py:_write_tsv_simple',
    'phylib/utils/_misc.py:write_tsv', 'phylib/utils/_misc.py:read_python', 'phylib/utils/_misc.py:write_python']
BOUNDS = {
    'quick': {'probes': '1..3', 'spikes_per_probe': '1..2', 'templates_per_probe': '1..2',
              'unbounded': ['spike times', 'amplitudes', 'TSV cluster ids and values']},
    'thorough': {'probes': '1..4', 'spikes_per_probe': '1..3', 'templates_per_probe': '1..3',
                 'unbounded': ['spike times', 'amplitudes', 'TSV cluster ids and values']},
}
ASSUMPTIONS = [
    'per probe: spike times non-decreasing (ties within and across probes arise as models), template ids in '
    '[0,T), cluster ids in [0,T+2) (gaps and curated clusters), amplitudes real',
    'per-cluster TSV files have symbolic presence per probe and one row with a symbolic id/value; numbers in '
    'text files are placeholders decoded by int()/float() (axiom int(str(i)) == i)',
    'load_model at the end of merge() is replaced by a no-op (loading is C04); channel/template arrays are '
    'concrete here (C12 makes them symbolic)',
    'id dtypes by configuration (int32/int64/uint32/uint64); in-place casting errors are NumPy\'s own rules',
    'forms added after seeding rounds: merge() called twice on one Merger; int16/uint8/uint16 id files in non-first probes; per-probe TSV present in a subset of probes',
]
STUBS = ['tqdm', 'load_model inside merge() (no-op)', 'np.save/np.load/open (virtual file system)']
OUTSIDE = ['more probes/spikes than the bound', 'byte-level npy/TSV formats (replays use real files)']
WITNESS_CAP = {'quick': 20, 'thorough': 40}


def configs(tier):
    quick = tier == 'quick'
    out = []
    shapes = [(1, [2]), (1, [1]), (2, [1, 2]), (2, [2, 1]), (2, [2, 2]), (3, [1, 2, 1]), (3, [1, 1, 1]),
              (3, [2, 1, 1])]      # last: first probe curated (highest cluster id > highest template id)
    if not quick:
        shapes += [(3, [2, 1, 2]), (2, [3, 1]), (2, [2, 3]), (4, [1, 1, 1, 1]), (3, [2, 2, 1])]
    dts = [('int32', 'uint64'), ('int64', 'int64'), ('uint32', 'uint64'), ('uint64', 'int64')]
    for P, spikes in shapes:
        for k, (idt, tdt) in enumerate(dts):
            if sum(spikes) >= 5 and k > 1:
                continue
            ntpl = [1 + (p + k) % 2 for p in range(P)]
            big = sum(spikes) >= 3 or P >= 3
            if quick and big and k % 2 == 1:
                continue
            out.append({'P': P, 'spikes': spikes, 'nch': [2 + (p % 2) for p in range(P)], 'ntpl': ntpl, 'nsw': 2,
                        'sym': 'spikes', 'id_dtypes': [idt] * P, 'time_dtypes': [tdt] * P,
                        'col_vectors': k == 1, 'sym_ids': not big, 'one_tsv': P >= 3})
    # mixed id dtypes across probes
    out.append({'P': 2, 'spikes': [2, 1], 'nch': [2, 3], 'ntpl': [2, 1], 'nsw': 2, 'sym': 'spikes', 'twice': True,
                'id_dtypes': ['int32', 'int32'], 'time_dtypes': ['uint64', 'uint64'], 'sym_ids': False})
    out.append({'P': 2, 'spikes': [1, 1], 'nch': [2, 2], 'ntpl': [1, 2], 'nsw': 2, 'sym': 'spikes',
                'id_dtypes': ['int32', 'int64'], 'time_dtypes': ['uint64', 'uint64']})
    # narrow id dtypes in a non-first probe (what a dataset with few clusters is saved with)
    out.append({'P': 3, 'spikes': [1, 1, 1], 'nch': [2, 2, 2], 'ntpl': [2, 1, 1], 'nsw': 2, 'sym': 'spikes',
                'id_dtypes': ['int32', 'int16', 'int32'], 'time_dtypes': ['uint64', 'uint64', 'uint64'],
                'sym_ids': False, 'one_tsv': True})
    out.append({'P': 2, 'spikes': [1, 2], 'nch': [2, 2], 'ntpl': [2, 1], 'nsw': 2, 'sym': 'spikes',
                'id_dtypes': ['uint8', 'uint16'], 'time_dtypes': ['uint64', 'uint64'], 'sym_ids': False})
    return out


def run_merge(pkg, probes, out_dir='/out', twice=False):
    mg = pkg.load('phylib.io.merge')
    mg.load_model = lambda p: None
    merger = mg.Merger([vfs.VPath(pr.dir) for pr in probes], vfs.VPath(out_dir))
    merger.merge()
    if twice:
        merger.merge()        # merging again with the same object must give the same dataset
    return merger


def run_config(cfg, e):
    pkg = env.make_pkg(record=e.functions)
    e.concretize_shapes = True

    def fn():
        vfs.reset()
        probes = mergelib.build(e, cfg)
        e.case_builder = lambda ev: mergelib.case_of(ev, cfg, probes)
        nlog = len(vfs.fs().log)
        try:
            run_merge(pkg, probes, twice=cfg.get('twice', False))
        except Exception as ex:
            e.fail('exception %r' % (ex,))
        fs = vfs.fs()
        for op in fs.log[nlog:]:
            if any(str(x).startswith('/in/') for x in op[1:]):
                e.fail('input directory modified: %s' % (op,))

        def out(name):
            ent = fs.get('/out/' + name)
            if ent is None:
                e.fail('output file %s missing' % name)
            return snp.asarray(ent.arr).a.tolist()
        P = cfg['P']
        N = sum(cfg['spikes'])
        T_out, A_out, ST_out, SC_out = out('spike_times.npy'), out('amplitudes.npy'), out('spike_templates.npy'), \
            out('spike_clusters.npy')
        CP = out('cluster_probes.npy')
        e.prove(len(T_out) == N and len(A_out) == N and len(ST_out) == N and len(SC_out) == N,
                'merged arrays do not have one entry per input spike')
        # expected order: stable merge by (time, probe, index)
        items = [(p, i) for p in range(P) for i in range(cfg['spikes'][p])]
        order = []
        for it in items:
            j = len(order)
            while j > 0 and bool(probes[order[j - 1][0]].ts[order[j - 1][1]] > probes[it[0]].ts[it[1]]):
                j -= 1
            order.insert(j, it)
        coff, toff = [0], [0]
        for pr in probes:
            mc = pr.sc[0]
            for v in pr.sc[1:]:
                mc = ite(v > mc, v, mc)
            mt = pr.st[0]
            for v in pr.st[1:]:
                mt = ite(v > mt, v, mt)
            coff.append(coff[-1] + mc + 1)
            toff.append(toff[-1] + mt + 1)
        obl = []
        for k, (p, i) in enumerate(order):
            pr = probes[p]
            obl.append((T_out[k] == pr.ts[i], 'spike %d of the merged train is not spike %d of probe %d (time)' % (k, i, p)))
            obl.append((A_out[k] == pr.am[i], 'amplitude of merged spike %d' % k))
            obl.append((ST_out[k] == pr.st[i] + toff[p], 'template id of merged spike %d is not shifted by the probe offset' % k))
            obl.append((SC_out[k] == pr.sc[i] + coff[p], 'cluster id of merged spike %d is not shifted by the probe offset' % k))
            if k:
                obl.append((T_out[k - 1] <= T_out[k], 'merged times not sorted'))
        obl.append((len(CP) == coff[P], 'cluster_probes has %d entries' % len(CP)))
        e.prove_all(obl)
        ncl = core.eng().concretize(core.term_of(coff[P])) if isinstance(coff[P], core.Sym) else coff[P]
        obl = []
        for c in range(min(ncl, len(CP))):
            want = 0
            for p in range(P):
                want = ite(sand(c >= coff[p], c < coff[p + 1]), p, want)
            obl.append((CP[c] == want, 'cluster_probes[%d]' % c))
        e.prove_all(obl)
        # renumbered per-cluster metadata
        rd = pkg.load('phylib.utils._misc')
        for fn in mergelib.TSV_FILES:
            present = [(p, pr.tsv[fn]) for p, pr in enumerate(probes) if fn in pr.tsv and bool(pr.tsv[fn][0])]
            ent = fs.get('/out/' + fn)
            if not present:
                e.prove(ent is None, '%s written although no probe has it' % fn)
                continue
            if ent is None:
                e.fail('%s missing from the output' % fn)
            try:
                field, data = rd._read_tsv_simple(vfs.VPath('/out/' + fn))
            except Exception as ex:
                e.fail('merged %s unreadable: %r' % (fn, ex))
            e.prove(field == fn[8:-4], 'field name of %s' % fn)
            keys = list(data.keys())
            obl = [(len(keys) == len(present), '%s has %d rows for %d input rows' % (fn, len(keys), len(present)))]
            for p, (_, k1, v1) in present:
                hit = sor(*[sand(k == k1 + coff[p], (data[k] == v1) if not isinstance(v1, str) else (data[k] == v1))
                            for k in keys])
                obl.append((hit, '%s: row of probe %d is not renumbered to (id + offset of the probe)' % (fn, p)))
            e.prove_all(obl)
        # params / probe description
        ptxt = fs.get('/out/params.py')
        e.prove(ptxt is not None and 'n_channels_dat = %d' % sum(pr.ncd for pr in probes) in ptxt.text
                and 'sample_rate = 30000.0' in ptxt.text, 'merged params.py')
        e.witness()

    e.explore(fn)


def replay(case):
    cfg = case['cfg']
    rp = mergelib.RealProbes(case)
    try:
        from phylib.io import merge as mg
        from phylib.utils._misc import _read_tsv_simple, read_python
        before = rp.snapshot()
        old = mg.load_model
        mg.load_model = lambda p: None
        try:
            mrg = mg.Merger(rp.subdirs, rp.out)
            mrg.merge()
            if cfg.get('twice'):
                mrg.merge()
        except Exception as ex:
            return 'merge raised %r' % (ex,)
        finally:
            mg.load_model = old
        if rp.snapshot() != before:
            return 'input directories changed'
        P = cfg['P']
        pr = case['probes']
        items = sorted([(pr[p]['ts'][i], p, i) for p in range(P) for i in range(cfg['spikes'][p])])
        coff, toff = [0], [0]
        for p in range(P):
            coff.append(coff[-1] + max(pr[p]['sc']) + 1)
            toff.append(toff[-1] + max(pr[p]['st']) + 1)
        L = lambda n: np.load(os.path.join(rp.out, n))
        T, A, ST, SC, CP = L('spike_times.npy'), L('amplitudes.npy'), L('spike_templates.npy'), \
            L('spike_clusters.npy'), L('cluster_probes.npy')
        wt = [t for t, p, i in items]
        wa = [pr[p]['am'][i] for t, p, i in items]
        wst = [pr[p]['st'][i] + toff[p] for t, p, i in items]
        wsc = [pr[p]['sc'][i] + coff[p] for t, p, i in items]
        if [int(v) for v in T.ravel()] != wt or not np.allclose(A.ravel(), wa) or \
                [int(v) for v in ST.ravel()] != wst or [int(v) for v in SC.ravel()] != wsc:
            return 'merged spikes: times %s amps %s templates %s clusters %s; expected %s %s %s %s' % (
                T.tolist(), A.tolist(), ST.tolist(), SC.tolist(), wt, wa, wst, wsc)
        wcp = [p for p in range(P) for _ in range(coff[p + 1] - coff[p])]
        if [int(v) for v in CP] != wcp:
            return 'cluster_probes %s, expected %s' % (CP.tolist(), wcp)
        for fn in mergelib.TSV_FILES:
            present = [(p, pr[p]['tsv'][fn]) for p in range(P) if fn in pr[p]['tsv'] and pr[p]['tsv'][fn][0]]
            path = os.path.join(rp.out, fn)
            if not present:
                if os.path.exists(path):
                    return '%s written although no probe has it' % fn
                continue
            if not os.path.exists(path):
                return '%s missing' % fn
            field, data = _read_tsv_simple(path)
            want = {k1 + coff[p]: v1 for p, (_, k1, v1) in present}
            if field != fn[8:-4] or data != want:
                return '%s = %s, expected %s' % (fn, data, want)
        params = read_python(os.path.join(rp.out, 'params.py'))
        if params['n_channels_dat'] != sum(cfg['nch'][p] + p for p in range(P)) or params['sample_rate'] != 30000.0:
            return 'params %s' % params
        return None
    finally:
        rp.close()


def classify(case, failure):
    return None


if __name__ == '__main__':
    sys.exit(harness.main('checks.c11'))
