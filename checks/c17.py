"""C17 Spike selection honours its cluster, chunk, subset and count constraints."""
import sys
import z3
import numpy as np

from symx import core, env, lam, harness, vfs, symnp as snp
from symx.core import SymInt, SymReal, sand, sor, snot, implies, ite, ssum

PID = 'C17'
FUNCTIONS = ['phylib/io/array.py:' + f for f in (
    'SpikeSelector.__init__', 'SpikeSelector.__call__', '_times_in_chunks', '_flatten_per_cluster',
    '_spikes_per_cluster')]
BOUNDS = {
    'quick': {'n_spikes': '0..3', 'grid_bounds': '2..4', 'requested_clusters': '0..2',
              'unbounded': ['spike times', 'chunk grid values', 'n_chunks_kept', 'requested count', 'cluster ids',
                            'requested ids (may be unknown)']},
    'thorough': {'n_spikes': '0..4', 'grid_bounds': '2..4', 'requested_clusters': '0..2',
                 'unbounded': ['spike times', 'chunk grid values', 'n_chunks_kept', 'requested count',
                               'cluster ids', 'requested ids (may be unknown)']},
}
ASSUMPTIONS = [
    'spike times non-decreasing (int64 or uint64), chunk grid strictly increasing, n_chunks_kept >= 1',
    'np.random.choice(a, k, replace=False) is an arbitrary k-subset of a in arbitrary order (contract stub): '
    'every such draw is explored',
    'the per-cluster callback is built from _spikes_per_cluster exactly as save_spikes_subset_waveforms does',
    'ceil(n / k) on exact rationals equals the float result (|n| < 2^26)',
    'forms added after seeding rounds: two calls with different chunk flags on one selector; subset arrays that list an id twice',
]
STUBS = ['np.random.choice (arbitrary distinct subset, arbitrary order)']
OUTSIDE = ['more spikes / grid bounds than the bound']
WITNESS_CAP = {'quick': 25, 'thorough': 50}
LOOP_BOUND = 16


def configs(tier):
    quick = tier == 'quick'
    out = []
    for m in range(2, (6 if quick else 8)):
        out.append({'kind': 'init', 'm': m})
    for n in range(0, (4 if quick else 5)):
        for m in (2, 3, 4):
            for nreq in range(0, 3):
                for cnt in ('none', 'sym'):
                    for chunks in (False, True):
                        for subset in (False, True):
                            if not chunks and m > 2:
                                continue
                            size = n + (m - 2 if chunks else 0) + nreq + (1 if subset else 0) + (1 if cnt == 'sym' else 0)
                            if n >= 3 and size > (6 if quick else 8):
                                continue
                            if n >= 4 and (subset and chunks or nreq > 1 or m > 3):
                                continue
                            out.append({'kind': 'call', 'n': n, 'm': m, 'nreq': nreq, 'cnt': cnt,
                                        'chunks': chunks, 'subset': subset,
                                        'tdtype': 'uint64' if (n + m) % 2 else 'int64'})
    # a subset array that lists an id twice
    for n in (2, 3):
        for nreq in (1, 2):
            for chunks in (False, True):
                if n == 3 and (chunks or nreq > 1) and quick:
                    continue
                out.append({'kind': 'call', 'n': n, 'm': 2 if not chunks else 3, 'nreq': nreq, 'cnt': 'sym' if n == 2 else 'none',
                            'chunks': chunks, 'subset': 'dup', 'tdtype': 'int64'})
    # two calls on one selector (a per-cluster cache must not leak the first call's restriction)
    for n in (1, 2):
        for f1, f2 in ((True, False), (False, True)):
            out.append({'kind': 'call', 'n': n, 'm': 3, 'nreq': 1, 'cnt': 'none', 'chunks': f2, 'subset': False,
                        'tdtype': 'int64', 'first_flag': f1})
    return out


def _grid(e, m):
    b = [e.int('b0', 0)]
    for i in range(1, m):
        v = e.int('b%d' % i)
        e.assume(v > b[-1])
        b.append(v)
    e.prefer.append(b[-1] <= 12)
    return b


def _kept_ok(kept, grid, k):
    """kept = whole grid intervals at a regular stride from the first, at most k of them"""
    nch = len(grid) - 1
    q = len(kept) // 2
    opts = []
    for s in range(1, max(nch, 1) + 1):
        idx = list(range(0, nch, s))
        if len(idx) != q:
            continue
        opts.append(sand(*([kept[2 * j] == grid[i] for j, i in enumerate(idx)] +
                           [kept[2 * j + 1] == grid[i + 1] for j, i in enumerate(idx)])))
    return sand(len(kept) % 2 == 0, q <= k, sor(*opts) if opts else (q == 0))


def run_config(cfg, e):
    kind = cfg['kind']
    pkg = env.make_pkg(record=e.functions)
    arr = pkg.load('phylib.io.array')

    def fn():
        m = cfg['m']
        grid = _grid(e, m)
        k = e.int('n_chunks_kept', 1)
        e.prefer.append(k <= 6)
        if kind == 'init':
            e.case_builder = lambda ev: {'kind': kind, 'grid': ev(grid), 'k': ev(k)}
            try:
                ss = arr.SpikeSelector(get_spikes_per_cluster=None, spike_times=None, chunk_bounds=list(grid),
                                       n_chunks_kept=k)
                kept = snp.asarray(ss.chunks_kept).a.tolist()
            except Exception as ex:
                e.fail('exception %r' % (ex,))
            e.prove(_kept_ok(kept, grid, k), 'chunks_kept is not a regular-stride selection of <= k grid intervals')
            e.witness()
            return
        n, nreq = cfg['n'], cfg['nreq']
        ts = []
        prev = 0
        for i in range(n):
            t = e.int('t%d' % i, 0)
            e.assume(t >= prev)
            prev = t
            ts.append(t)
        if ts:
            e.prefer.append(ts[-1] <= 14)
        cl = [e.int('c%d' % i, 0) for i in range(n)]
        req = [e.int('r%d' % i, 0) for i in range(nreq)]
        for v in cl + req:
            e.prefer.append(v <= 5)
        cnt = None if cfg['cnt'] == 'none' else e.int('n_spk_clu')
        if cnt is not None:
            e.prefer.append(sand(cnt >= -1, cnt <= 6))
        sub = None
        subsel = None
        if cfg['subset']:
            subsel = [e.bool('sub%d' % i) for i in range(n)]
        e.case_builder = lambda ev: {'kind': kind, 'grid': ev(grid), 'k': ev(k), 'ts': ev(ts), 'cl': ev(cl),
                                     'req': ev(req), 'cnt': None if cnt is None else ev(cnt),
                                     'chunks': cfg['chunks'], 'tdtype': cfg['tdtype'], 'first_flag': cfg.get('first_flag'),
                                     'subset': None if subsel is None else (lambda c: c + c[:1] if cfg['subset'] == 'dup' else c)(
                                         [i for i in range(n) if ev(subsel[i])])}
        times = snp.ndarray(snp._fromlist(ts, (n,)), cfg['tdtype'])
        clusters = snp.ndarray(snp._fromlist(cl, (n,)), 'int32')
        try:
            if subsel is not None:
                chosen = [i for i in range(n) if bool(subsel[i])]
                if cfg['subset'] == 'dup':
                    chosen = chosen + chosen[:1]      # a subset array may list an id twice
                sub = snp.asarray(np.array(chosen, dtype=np.int64))
            spt = arr._spikes_per_cluster(clusters)
            ss = arr.SpikeSelector(
                get_spikes_per_cluster=lambda c: spt.get(c, snp.asarray(np.array([], dtype=np.int64))),
                spike_times=times, chunk_bounds=list(grid), n_chunks_kept=k)
            if cfg.get('first_flag') is not None:
                ss(cnt, list(req), subset_chunks=cfg['first_flag'], subset_spikes=sub)
            out = ss(cnt, list(req), subset_chunks=cfg['chunks'], subset_spikes=sub)
            out = [int(v) for v in snp.asarray(out).a.tolist()]
            kept = snp.asarray(ss.chunks_kept).a.tolist()
        except Exception as ex:
            e.fail('exception %r' % (ex,))
        e.prove(_kept_ok(kept, grid, k), 'chunks_kept is not a regular-stride selection of <= k grid intervals')
        e.prove(out == sorted(set(out)) and all(0 <= p < n for p in out), 'not a strictly increasing id array')

        def inchunks(p):
            if not cfg['chunks']:
                return core.SymBool(True)
            return sor(*[sand(kept[2 * j] <= ts[p], ts[p] < kept[2 * j + 1]) for j in range(len(kept) // 2)])

        def insub(p):
            return core.SymBool(True) if subsel is None else subsel[p]
        obl = []
        for p in out:
            obl.append((sor(*[cl[p] == r for r in req]), 'spike %d is not in a requested cluster' % p))
            obl.append((inchunks(p), 'spike %d is not in a kept chunk' % p))
            obl.append((insub(p), 'spike %d is not in the subset' % p))
        for r in req:
            got = ssum([ite(cl[p] == r, 1, 0) for p in out]) if out else 0
            el = ssum([ite(sand(cl[p] == r, inchunks(p), insub(p)), 1, 0) for p in range(n)]) if n else 0
            if cnt is None:
                obl.append((got == el, 'cluster: not all eligible spikes returned'))
            else:
                obl.append((got == ite(sand(cnt > 0, el > cnt), cnt, el), 'cluster: wrong number of spikes'))
        e.prove_all(obl)
        e.witness()

    e.explore(fn)


def replay(case):
    from symx.loader import real_phylib
    real_phylib()
    from phylib.io import array as arr
    grid, k = case['grid'], case['k']
    nch = len(grid) - 1

    def kept_ok(kept):
        kept = list(map(int, kept))
        q = len(kept) // 2
        if len(kept) % 2 or q > k:
            return False
        for s in range(1, max(nch, 1) + 1):
            idx = list(range(0, nch, s))
            if len(idx) == q and all(kept[2 * j] == grid[i] and kept[2 * j + 1] == grid[i + 1]
                                     for j, i in enumerate(idx)):
                return True
        return q == 0 and nch == 0
    if case['kind'] == 'init':
        try:
            ss = arr.SpikeSelector(None, None, chunk_bounds=grid, n_chunks_kept=k)
        except Exception as ex:
            return 'raised %r' % (ex,)
        return None if kept_ok(ss.chunks_kept) else 'chunks_kept %s for grid %s, k=%d' % (list(ss.chunks_kept), grid, k)
    ts, cl, req, cnt = case['ts'], case['cl'], case['req'], case['cnt']
    n = len(ts)
    times = np.array(ts, dtype=case['tdtype'])
    clusters = np.array(cl, dtype=np.int32)
    sub = None if case['subset'] is None else np.array(case['subset'], dtype=np.int64)
    for seed in range(12):
        np.random.seed(seed)
        try:
            spt = arr._spikes_per_cluster(clusters)
            ss = arr.SpikeSelector(
                get_spikes_per_cluster=lambda c: spt.get(c, np.array([], dtype=np.int64)),
                spike_times=times, chunk_bounds=grid, n_chunks_kept=k)
            if case.get('first_flag') is not None:
                ss(cnt, list(req), subset_chunks=case['first_flag'], subset_spikes=sub)
            out = ss(cnt, list(req), subset_chunks=case['chunks'], subset_spikes=sub)
        except Exception as ex:
            return 'raised %r' % (ex,)
        out = list(map(int, out))
        kept = list(map(int, ss.chunks_kept))
        if not kept_ok(kept):
            return 'chunks_kept %s for grid %s, k=%d' % (kept, grid, k)
        if out != sorted(set(out)):
            return 'not strictly increasing: %s' % out

        def elig(p):
            if case['chunks'] and not any(kept[2 * j] <= ts[p] < kept[2 * j + 1] for j in range(len(kept) // 2)):
                return False
            if sub is not None and p not in case['subset']:
                return False
            return True
        for p in out:
            if cl[p] not in req or not elig(p):
                return 'spike %d (t=%d, cluster %d) returned but not eligible; out=%s kept=%s' % (
                    p, ts[p], cl[p], out, kept)
        for r in set(req):
            el = [p for p in range(n) if cl[p] == r and elig(p)]
            got = [p for p in out if cl[p] == r]
            want = len(el) if (cnt is None or cnt <= 0 or len(el) <= cnt) else cnt
            if len(got) != want:
                return 'cluster %d: %d spikes returned, expected %d (eligible %s, count %s, out %s, kept %s)' % (
                    r, len(got), want, el, cnt, out, kept)
    return None


if __name__ == '__main__':
    sys.exit(harness.main('checks.c17'))
