"""C01 Raw-data reader indexing equals NumPy indexing of the concatenated recording."""
import sys
import itertools
import z3
import numpy as np

from symx import core, env, lam, harness, vfs, symnp as snp
from symx.core import SymInt, sand, sor, implies, ite
from checks.readers import SymRecording, RealRecording, RATE

PID = 'C01'
FUNCTIONS = ['phylib/io/traces.py:' + f for f in (
    '_get_subitems', '_find_chunks', '_get_part_bounds', '_get_chunk_bounds', '_memmap_flat', '_apply_op',
    'BaseEphysReader.__getitem__', 'BaseEphysReader._append_op', 'BaseEphysReader._apply_ops',
    'BaseEphysReader.n_samples', 'BaseEphysReader.shape', 'BaseEphysReader.duration',
    'FlatEphysReader.__init__', 'FlatEphysReader._get_part', 'ArrayEphysReader.__init__',
    'ArrayEphysReader._get_part', 'NpyEphysReader.__init__', 'MtscompEphysReader.__init__',
    'MtscompEphysReader._get_part', '_get_ephys_constructor', 'get_ephys_reader')]
BOUNDS = {
    'quick': {'parts': '1..3 (flat), 1 (npy/array/cbin)', 'channels': [1, 3], 'index_list_len': '1..2',
              'unbounded': ['part sizes (< one default chunk = 1.8e7 rows)', 'header offset', 'int index',
                            'slice bounds', 'index values', 'file contents (uninterpreted)']},
    'thorough': {'parts': '1..5 (flat)', 'channels': [1, 2, 3], 'index_list_len': '1..3',
                 'unbounded': ['part sizes (< one default chunk)', 'header offset', 'int index', 'slice bounds',
                               'index values', 'file contents (uninterpreted)']},
}
ASSUMPTIONS = [
    'part sizes 1 <= s_p < 600 s * 30 kHz, so the constructor chunk loop unrolls once per part (chunking is C16)',
    'index expressions in the documented domain: int in [-n,n); unit-step slice with bounds in [-n,n] or None '
    'selecting >= 1 row; strictly increasing index list/array in [0,n); lists are not offered to cbin',
    'file contents are uninterpreted functions of (file, byte offset) resp. (row, col): a read at a wrong '
    'offset/item size/channel count yields a different term',
    'mtscomp.Reader replaced by a stub honouring its __getitem__ contract; real decoder only in witness replays',
    'call forms added after seeding rounds: dtype= keyword on npy/array readers, an earlier read of another symbolic range on the same reader, slice bounds / integer index given as unsigned NumPy scalars (uint8/16/32, values representable in the type)',
    'round 7: recordings of fixed small sizes (1; 2+1; 3; 2 rows) next to the symbolic ones, so that error paths which format the index into a message stay explorable',
]
STUBS = ['Path.stat().st_size', 'np.memmap (lambda array over the file bytes)', 'np.load(mmap_mode=r)',
         'mtscomp.Reader (contract stub)']
OUTSIDE = ['more parts than the bound', 'float rounding (none involved)', 'mtscomp decoder',
           'chunk loop for parts longer than one default chunk']
WITNESS_CAP = {'quick': 12, 'thorough': 40}
LOOP_BOUND = 16


def _colsels(nc, tier):
    sels = [('none', None), ('all', 'slice(None)'), ('list', list(range(nc))[::-1])]
    if nc >= 2:
        sels += [('from1', 'slice(1,None)'), ('rev', 'slice(None,None,-1)'), ('list', [nc - 1, 0])]
    if nc >= 3:
        sels += [('list', [1, 2, 0]), ('list', [1])]
        if tier == 'thorough':
            sels += [('list', list(p)) for p in itertools.permutations(range(nc)) if list(p) not in
                     ([2, 1, 0], [1, 2, 0])]
    return sels


def configs(tier):
    out = []
    quick = tier == 'quick'
    backs = [('flat', k) for k in (range(1, 4) if quick else range(1, 6))] + \
            [('npy', 1), ('array', 1), ('cbin', 1)]
    for backend, K in backs:
        for nc in ([1, 3] if quick else [1, 2, 3]):
            for dtype in (['int16'] if quick or backend != 'flat' else ['int16', 'float32', 'uint8', 'float64']):
                items = ['int', 'slice_ss', 'slice_sn', 'slice_ns', 'slice_nn']
                if backend != 'cbin':
                    for m in ([1, 2] if quick else [1, 2, 3]):
                        items += ['list%d' % m, 'array%d' % m]
                    items += ['uarray2']      # index array of an unsigned dtype (what KiloSort writes)
                for item in items:
                    if K >= 5 and item not in ('int', 'slice_nn', 'list1', 'array2'):
                        continue      # two symbolic negative bounds over 5 parts exceed the query timeout
                    sels = _colsels(nc, tier)
                    if K >= 3 and quick:
                        sels = sels[:3]
                    if K >= 4:
                        sels = [sels[0], sels[2]]
                    for sel in sels:
                        out.append({'backend': backend, 'K': K, 'nc': nc, 'dtype': dtype, 'item': item,
                                    'sel': sel[1]})
    for mb, mk, mdt in (('flat', 3, 'int16'), ('flat', 1, 'float32'), ('npy', 1, 'float64'), ('array', 1, 'int16'),
                        ('cbin', 1, 'int16')):
        out.append({'backend': 'meta', 'meta_backend': mb, 'K': mk, 'nc': 2, 'dtype': mdt, 'item': 'meta', 'sel': None})
    # an earlier read of another (symbolic) range on the same reader must not influence the next one
    for backend, K in (('flat', 2), ('flat', 3), ('npy', 1), ('cbin', 1)):
        for item in ('int', 'slice_ss', 'list2'):
            if backend == 'cbin' and item == 'list2':
                continue
            if quick and K == 3 and item == 'slice_ss':
                continue      # ~100 s on its own: thorough tier only
            out.append({'backend': backend, 'K': K, 'nc': 2, 'dtype': 'int16', 'item': item,
                        'sel': None if item != 'slice_ss' else [1], 'prior': True})
    # recordings of fixed small sizes (error paths that format their message need concrete integers)
    for backend, K, sizes in (('flat', 1, [1]), ('flat', 2, [2, 1]), ('array', 1, [3]), ('npy', 1, [2])):
        for item in ('int', 'slice_ss'):
            out.append({'backend': backend, 'K': K, 'nc': 2, 'dtype': 'int16', 'item': item, 'sel': None,
                        'fixed_sizes': sizes})
    # slice bounds / integer index given as unsigned NumPy scalars (what indexing with entries of a uint array gives)
    for backend, K in (('flat', 2), ('flat', 3), ('npy', 1)):
        for item, dtn in (('slice_ss', 'uint8'), ('slice_ss', 'uint32'), ('int', 'uint16'), ('slice_sn', 'uint8')):
            out.append({'backend': backend, 'K': K, 'nc': 2, 'dtype': 'int16', 'item': item, 'sel': None,
                        'index_dtype': dtn})
    # the loader always passes dtype=...: on self-describing backends the reader's dtype is the array's
    out.append({'backend': 'meta', 'meta_backend': 'npy', 'K': 1, 'nc': 2, 'dtype': 'float32', 'item': 'meta',
                'sel': None, 'dtype_kw': 'int16'})
    out.append({'backend': 'meta', 'meta_backend': 'array', 'K': 1, 'nc': 2, 'dtype': 'int16', 'item': 'meta',
                'sel': None, 'dtype_kw': 'float64'})
    return out


def _mksel(sel):
    if sel is None:
        return None
    if isinstance(sel, str):
        return eval(sel)
    return list(sel)


def _selcols(sel, nc):
    if sel is None:
        return list(range(nc))
    s = _mksel(sel)
    return list(np.arange(nc)[s])


def run_config(cfg, e):
    def fn():
        vfs.reset()
        pkg = env.make_pkg(record=e.functions)
        rec = SymRecording(e, cfg['backend'] if cfg['backend'] != 'meta' else cfg.get('meta_backend', 'flat'),
                           cfg['K'], cfg['nc'], cfg['dtype'])
        n = rec.n
        if cfg.get('fixed_sizes'):
            for sp, v in zip(rec.sizes, cfg['fixed_sizes']):
                e.assume(sp == v)
        kind = cfg['item']
        info = {}
        # ---- the index expression ----
        idt = cfg.get('index_dtype')
        tyd = (lambda v: v) if idt is None else (lambda v: None if v is None else snp.mkscalar(v, np.dtype(idt)))
        if kind == 'int':
            i = e.int('i')
            e.assume(sand(i >= -n, i < n))
            if idt is not None:
                e.assume(sand(i >= 0, i <= int(np.iinfo(idt).max)))
            item = tyd(i)
            L = 1
            rowf = lambda j: ite(i < 0, i + n, i)
            info = lambda ev: {'item': ['int', ev(i)]}
        elif kind.startswith('slice') or kind == 'meta':
            a = e.int('start') if kind[-2:-1] == 's' else None
            b = e.int('stop') if kind[-1:] == 's' else None
            for v in (a, b):
                if v is not None:
                    e.assume(sand(v >= -n, v <= n))
                    if idt is not None:
                        e.assume(sand(v >= 0, v <= int(np.iinfo(idt).max)))
            a1 = 0 if a is None else ite(a < 0, a + n, a)
            b1 = n if b is None else ite(b < 0, b + n, b)
            e.assume(b1 - a1 >= 1)
            e.prefer.append(b1 - a1 <= 6)
            item = slice(tyd(a), tyd(b))
            L = b1 - a1
            rowf = lambda j: a1 + j
            info = lambda ev: {'item': ['slice', None if a is None else ev(a), None if b is None else ev(b)]}
        else:
            m = int(kind[-1])
            xs = [e.int('x%d' % k) for k in range(m)]
            e.assume(xs[0] >= 0)
            for u, v in zip(xs[:-1], xs[1:]):
                e.assume(u < v)
            e.assume(xs[-1] < n)
            if kind.startswith('list'):
                item = list(xs)
            elif kind.startswith('uarray'):
                item = snp.ndarray(snp._fromlist(xs, (m,)), 'uint64')
            else:
                item = snp.asarray(xs)
            L = m
            rowf = lambda j: lam._select(xs, j)
            info = lambda ev: {'item': [kind[:-1], ev(xs)]}
            e.prefer.append(xs[-1] <= 40)
        sel = _mksel(cfg['sel'])
        prior = None
        if cfg.get('prior'):
            p0, p1 = e.int('p0'), e.int('p1')
            e.assume(sand(p0 >= 0, p0 < p1, p1 <= n))
            e.prefer.append(p1 - p0 <= 6)
            prior = (p0, p1)
        e.case_builder = lambda ev: dict(rec.case(ev), sel=cfg['sel'], dtype_kw=cfg.get('dtype_kw'), index_dtype=idt,
                                         prior=None if prior is None else [ev(p0), ev(p1)], **info(ev))
        try:
            reader = rec.make_reader(pkg, dtype_kw=cfg.get('dtype_kw'))
            if prior is not None:
                reader[p0:p1]
                reader[p0]
            if kind == 'meta':
                e.prove(reader.n_samples == n, 'n_samples')
                e.prove(reader.shape[0] == n, 'shape[0]')
                e.prove(reader.shape[1] == rec.nc, 'shape[1]')
                e.prove(reader.n_channels == rec.nc, 'n_channels')
                e.prove(np.dtype(reader.dtype) == rec.dtype, 'dtype')
                e.prove(reader.duration == core.SymReal(z3.ToReal(core.term_of(n)) / z3.RealVal(str(RATE))),
                        'duration')
                pb = list(reader.part_bounds)
                e.prove(len(pb) == len(rec.bounds), 'part_bounds length')
                for x, y in zip(pb, rec.bounds):
                    e.prove(x == y, 'part_bounds')
            out = reader[item] if sel is None else reader[item, sel]
            if kind == 'slice_nn' and sel is not None:
                # whole-recording channel selection is lazy (C02): it must be a reader; read it
                if type(out) is not type(reader):
                    e.fail('reader[:, cols] is not a reader')
                out = out[item]
        except Exception as ex:
            e.fail('exception %r' % (ex,))
        out = snp.asarray(out)
        cols = _selcols(cfg['sel'], rec.nc)
        e.prove(out.ndim == 2, 'result is not two-dimensional')
        e.prove(out.shape[0] == L, 'wrong number of rows')
        e.prove(out.shape[1] == len(cols), 'wrong number of columns')
        e.prove(out.dtype == rec.dtype, 'wrong dtype %s' % out.dtype)
        j = e.int('j')
        g = sand(j >= 0, j < L)
        for c, col in enumerate(cols):
            e.prove(implies(g, lam.elem(out, (j, c)) == rec.T(rowf(j), int(col))),
                    'wrong value at (row j, column %d)' % c)
        e.witness()

    e.explore(fn)


def replay(case):
    rr = RealRecording(case)
    try:
        r = rr.reader(dtype_kw=case.get('dtype_kw'))
        concat = rr.data
        it = case['item']
        ty = (lambda v: v) if not case.get('index_dtype') else (
            lambda v: None if v is None else np.dtype(case['index_dtype']).type(v))
        if it[0] == 'int':
            item = ty(it[1])
        elif it[0] == 'slice':
            item = slice(ty(it[1]), ty(it[2]))
        elif it[0] == 'list':
            item = list(it[1])
        elif it[0] == 'uarray':
            item = np.array(it[1], dtype=np.uint64)
        else:
            item = np.array(it[1])
        sel = _mksel(case['sel'])
        want = concat[item]
        if want.ndim == 1:
            want = want[np.newaxis, :]
        if sel is not None:
            want = want[:, sel]
        if r.shape != concat.shape or r.n_samples != concat.shape[0] or r.n_channels != concat.shape[1] \
                or np.dtype(r.dtype) != concat.dtype or abs(r.duration - concat.shape[0] / RATE) > 1e-12:
            return 'metadata differ: shape %s vs %s' % (r.shape, concat.shape)
        try:
            if case.get('prior'):
                r[case['prior'][0]:case['prior'][1]]
                r[case['prior'][0]]
            got = r[item] if sel is None else r[item, sel]
            if sel is not None and it[0] == 'slice' and it[1] is None and it[2] is None:
                got = got[item]
        except Exception as ex:
            return 'reader[%r%s] raised %r' % (item, '' if sel is None else ', %r' % (sel,), ex)
        got = np.asarray(got)
        if got.shape != want.shape or got.dtype != want.dtype or not np.array_equal(got, want):
            return 'reader[%r, %r] = %s (shape %s dtype %s), NumPy gives %s (shape %s)' % (
                item, sel, got.tolist()[:4], got.shape, got.dtype, want.tolist()[:4], want.shape)
        return None
    finally:
        rr.close()


def classify(case, failure):
    return None


if __name__ == '__main__':
    sys.exit(harness.main('checks.c01'))
