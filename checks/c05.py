"""C05 Template records are aligned with their channel list (dense and sparse storage)."""
import sys
import itertools
import z3
import numpy as np

from symx import core, env, lam, harness, vfs, symnp as snp
from symx.core import SymInt, SymReal, sand, sor, snot, implies, ite
from checks import models

PID = 'C05'
FUNCTIONS = ['phylib/io/model.py:' + f for f in (
    'TemplateModel._find_best_channels', 'get_closest_channels', 'TemplateModel._get_template_dense',
    'TemplateModel._get_template_sparse', 'TemplateModel._unwhiten', 'TemplateModel.get_template',
    'TemplateModel.get_template_channels', 'TemplateModel.get_template_waveforms',
    'TemplateModel.get_cluster_channels', 'TemplateModel._get_template_from_spikes',
    'TemplateModel._template_n_channels')]
BOUNDS = {
    'quick': {'channels': [3, 4], 'waveform_samples': 2, 'n_closest_channels': '2, nc, nc+2',
              'thresholds': [None, 0.5, 1], 'whitening': ['I', 'diag', 'dense'], 'sparse_local_channels': '2..3',
              'unbounded': ['template values (reals)', 'sparse column-table entries']},
    'thorough': {'channels': [3, 4, 5], 'waveform_samples': '2..3', 'n_closest_channels': '2, 3, nc, nc+2',
                 'thresholds': [None, 0, 0.5, 1], 'whitening': ['I', 'diag', 'dense', 'nonsym'],
                 'sparse_local_channels': '2..4', 'unbounded': ['template values (reals)',
                                                                'sparse column-table entries']},
}
ASSUMPTIONS = [
    'template values are reals (float32 cast = identity); the template is not identically zero on every channel '
    'that may be listed (sparse: at least one stored channel has signal)',
    'geometries, shank labels and inverse whitening matrices come from a fixed concrete set (distance ranking '
    'is NumPy\'s own on concrete coordinates)',
    'with an explicit caller list only the channel list and the column alignment are claimed',
    'sparse tables: entries in [-1, nc), distinct apart from -1; sparse template values on a 1/4 grid in [-8, 8]',
    'forms added after seeding rounds: earlier get_template calls with the other whitening flag / threshold on the same model; channel positions stored as uint32',
]
STUBS = []
OUTSIDE = ['float32 rounding', 'symbolic whitening matrices', 'symbolic geometries']
WITNESS_CAP = {'quick': 30, 'thorough': 80}


def configs(tier):
    quick = tier == 'quick'
    out = []
    for nc in ((3, 4) if quick else (3, 4, 5)):
        for geom in ('line', 'twoshank', 'closeshanks', 'square'):
            for wmi in (('I', 'dense') if quick else ('I', 'diag', 'dense', 'nonsym')):
                for ncl in sorted({2, nc, nc + 2} if quick else {2, 3, nc, nc + 2}):
                    for thr in ((None, 0.5) if quick else (None, 0, 0.5, 1)):
                        for unw in (True, False):
                            if quick and (nc == 4 and geom in ('line', 'square') and wmi == 'dense'):
                                continue
                            if quick and not unw and (thr is not None or wmi != 'dense'):
                                continue
                            if nc == 5 and (wmi in ('diag', 'nonsym') or thr == 0 or not unw):
                                continue
                            out.append({'kind': 'dense', 'nc': nc, 'geom': geom, 'wmi': wmi, 'ncl': ncl,
                                        'thr': thr, 'unwhiten': unw, 'nsw': 2})
    for nc in (3, 4):
        for thr in (None, 0, 1):
            out.append({'kind': 'dense', 'nc': nc, 'geom': 'zigzag', 'wmi': 'I', 'ncl': nc, 'thr': thr,
                        'unwhiten': True, 'nsw': 2, 'model_thr': 0.5})
    for nc in (3,):
        for unw in (True, False):
            out.append({'kind': 'dense', 'nc': nc, 'geom': 'zigzag', 'wmi': 'dense', 'ncl': nc, 'thr': 0.5,
                        'unwhiten': unw, 'nsw': 2, 'first_call': True})
    # channel positions stored as unsigned integers
    for nc in (3, 4):
        out.append({'kind': 'dense', 'nc': nc, 'geom': 'zigzag_u32', 'wmi': 'I', 'ncl': 2, 'thr': None,
                    'unwhiten': True, 'nsw': 2})
    for nc in (3, 4):
        out.append({'kind': 'dense_explicit', 'nc': nc, 'geom': 'zigzag', 'wmi': 'dense', 'ncl': 2, 'thr': None,
                    'unwhiten': True, 'nsw': 2})
        out.append({'kind': 'dense_helpers', 'nc': nc, 'geom': 'closeshanks', 'wmi': 'diag', 'ncl': 2,
                    'thr': None, 'unwhiten': True, 'nsw': 2})
    if not quick:
        for nc in (3, 4):
            out.append({'kind': 'dense', 'nc': nc, 'geom': 'zigzag', 'wmi': 'dense', 'ncl': 2, 'thr': 0.5,
                        'unwhiten': True, 'nsw': 3})
    for nloc in ((2, 3) if quick else (2, 3, 4)):
        for wmi in ('I', 'dense'):
            for unw in (True, False):
                out.append({'kind': 'sparse', 'nc': 4, 'nloc': nloc, 'wmi': wmi, 'unwhiten': unw, 'nsw': 2})
    return out


def _dense_inputs(e, cfg):
    nc, nsw = cfg['nc'], cfg['nsw']
    arr, flat = models.sym_reals(e, 'w', (1, nsw, nc))
    tw = [[arr.a[0, t, c] for c in range(nc)] for t in range(nsw)]
    return arr, flat, tw


def run_config(cfg, e):
    pkg = env.make_pkg(record=e.functions)
    kind = cfg['kind']

    def fn():
        nc, nsw = cfg['nc'], cfg['nsw']
        if kind.startswith('dense'):
            arr, flat, tw = _dense_inputs(e, cfg)
            m, Bunch = models.build_sym_model(pkg, nc, cfg['geom'], cfg['wmi'], cfg['ncl'],
                                              threshold=cfg.get('model_thr', 0))
            m.sparse_templates = Bunch(data=arr, cols=None)
            m.template_ids = snp.asarray(np.array([0]))
            m.spike_templates = snp.asarray(np.array([0, 0], dtype=np.int32))
            m.spike_clusters = snp.asarray(np.array([0, 0], dtype=np.int32))
            e.case_builder = lambda ev: dict(cfg, data=ev(flat))
            wmi = models.wmi_matrix(cfg['wmi'], nc)
            U = models.unwhiten_terms(tw, wmi) if cfg['unwhiten'] else tw
            amp = models.ptp_terms(U)
            # the property is about templates with signal: the peak amplitude is positive
            mx = amp[0]
            for a in amp[1:]:
                mx = ite(a > mx, a, mx)
            e.assume(mx > 0)
            try:
                if kind == 'dense_explicit':
                    expl = snp.asarray(np.array([nc - 1, 0], dtype=np.int64))
                    b = m.get_template(0, channel_ids=expl)
                    ch = [int(v) for v in snp.asarray(b.channel_ids).a.tolist()]
                    e.prove(ch == [nc - 1, 0], 'explicit channel list not honoured')
                    tpl = snp.asarray(b.template)
                    e.prove_all([(tpl.a[t, j] == U[t][c], 'column %d is not channel %d' % (j, c))
                                 for j, c in enumerate(ch) for t in range(nsw)])
                    e.witness()
                    return
                if kind == 'dense_helpers':
                    b = m.get_template(0)
                    ch = [int(v) for v in snp.asarray(b.channel_ids).a.tolist()]
                    ch2 = [int(v) for v in snp.asarray(m.get_template_channels(0)).a.tolist()]
                    ch3 = [int(v) for v in snp.asarray(m.get_cluster_channels(0)).a.tolist()]
                    wv = snp.asarray(m.get_template_waveforms(0))
                    pad = m._template_n_channels(0, nc + 1)
                    pad = [int(v) for v in pad]
                    e.prove(ch2 == ch and ch3 == ch, 'get_template_channels / get_cluster_channels differ')
                    e.prove(pad == ch[:nc + 1] + [-1] * (nc + 1 - len(ch)), '_template_n_channels padding')
                    e.prove(m._template_n_channels(7, 2) == [-1, -1], 'unknown template not padded with -1')
                    e.prove_all([(wv.a[t, j] == U[t][c], 'waveform column %d' % j)
                                 for j, c in enumerate(ch) for t in range(nsw)])
                    e.witness()
                    return
                if cfg.get('first_call'):
                    # an earlier request on the same model with the other whitening flag and another threshold
                    m.get_template(0, amplitude_threshold=cfg['thr'], unwhiten=not cfg['unwhiten'])
                    m.get_template(0, unwhiten=cfg['unwhiten'])
                b = m.get_template(0, amplitude_threshold=cfg['thr'], unwhiten=cfg['unwhiten'])
                ch = [int(v) for v in snp.asarray(b.channel_ids).a.tolist()]
                tpl = snp.asarray(b.template)
                ampl = snp.asarray(b.amplitude).a.tolist()
                best = int(b.best_channel)
            except Exception as ex:
                e.fail('exception %r' % (ex,))
            thr = cfg['thr'] if cfg['thr'] is not None else cfg.get('model_thr', 0)
            obl = [(len(set(ch)) == len(ch), 'channels not distinct'),
                   (tpl.shape == (nsw, len(ch)), 'template shape %s for %d channels' % (tpl.shape, len(ch))),
                   (len(ampl) == len(ch), 'amplitude vector has %d entries for %d channels' % (len(ampl), len(ch))),
                   (amp[best] == mx, 'best_channel is not a peak channel')]
            e.prove_all(obl)
            obl = [(amp[ch[0]] == mx, 'first listed channel is not a peak channel')]
            for j, c in enumerate(ch):
                for t in range(nsw):
                    obl.append((tpl.a[t, j] == U[t][c], 'column %d is not the template on channel %d' % (j, c)))
                obl.append((ampl[j] == amp[c], 'amplitude[%d] is not the peak-to-peak of channel %d' % (j, c)))
                if j:
                    obl.append((amp[ch[j - 1]] >= amp[c], 'channels not in decreasing amplitude order'))
            near = models.closest(cfg['geom'], nc, best, cfg['ncl'])
            shanks = models.GEOMS[cfg['geom']](nc)[1]
            for c in range(nc):
                member = c in near and shanks[c] == shanks[best]
                cond = (amp[c] >= mx * thr) if member else False
                obl.append(((cond if c in ch else snot(cond)) if member else (c not in ch),
                            'channel %d wrongly %s' % (c, 'listed' if c in ch else 'omitted')))
            e.prove_all(obl)
            e.witness()
            return
        # ---- sparse storage -------------------------------------------------------------------
        nloc = cfg['nloc']
        arr, flat = models.sym_reals(e, 'w', (1, nsw, nloc))
        # values on a 1/4 grid in [-8, 8]: the 1e-6 signal threshold is then never a float-rounding boundary
        for v in flat:
            kq = e.int('q')
            e.add(sand(kq >= -32, kq <= 32))
            e.assume(v * 4 == core.SymReal(z3.ToReal(kq.term)))
        cols = [e.int('col%d' % k, -1, nc - 1) for k in range(nloc)]
        for a, b2 in itertools.combinations(cols, 2):
            e.assume(sor(a != b2, a == -1))
        m, Bunch = models.build_sym_model(pkg, nc, 'line', cfg['wmi'], 12)
        m.sparse_templates = Bunch(data=arr, cols=snp.ndarray(snp._fromlist(cols, (1, nloc)), 'int32'))
        e.case_builder = lambda ev: dict(cfg, data=ev(flat), cols=ev(cols))
        tw = [[arr.a[0, t, k] for k in range(nloc)] for t in range(nsw)]
        absmax = []
        for k in range(nloc):
            mxk = abs(tw[0][k])
            for t in range(1, nsw):
                v = abs(tw[t][k])
                mxk = ite(v > mxk, v, mxk)
            absmax.append(mxk)
        tot = absmax[0]
        for v in absmax[1:]:
            tot = ite(v > tot, v, tot)
        keep = [sand(absmax[k] > tot * 1e-6, cols[k] != -1) for k in range(nloc)]
        e.assume(sor(*keep))
        try:
            b = m.get_template(0, unwhiten=cfg['unwhiten'])
            ch = [int(v) for v in snp.asarray(b.channel_ids).a.tolist()]
            tpl = snp.asarray(b.template)
            ampl = snp.asarray(b.amplitude).a.tolist()
            best = int(b.best_channel)
        except Exception as ex:
            e.fail('exception %r' % (ex,))
        # expected: kept stored columns, unwhitened on the sub-matrix of kept channels
        wmi = models.wmi_matrix(cfg['wmi'], nc)
        e.prove_all([(len(set(ch)) == len(ch), 'channels not distinct'),
                     (tpl.shape == (nsw, len(ch)), 'template shape'),
                     (len(ampl) == len(ch), 'amplitude length')])
        # which stored slot does each listed channel come from (decided under the path condition)
        slot = {}
        for c in ch:
            ks = [k for k in range(nloc) if bool(cols[k] == c)]
            e.prove(len(ks) == 1, 'listed channel %d is not a stored channel' % c)
            slot[c] = ks[0]
        obl = []
        for k in range(nloc):
            listed = any(slot.get(c) == k for c in ch)
            obl.append((keep[k] if listed else snot(keep[k]), 'stored slot %d wrongly %s' % (
                k, 'listed' if listed else 'dropped')))
        e.prove_all(obl)

        def uw(t, c):
            if not cfg['unwhiten']:
                return tw[t][slot[c]]
            r = SymReal(0)
            for c2 in ch:
                w = float(wmi[c2][c])
                if w != 0:
                    r = r + tw[t][slot[c2]] * w
            return r
        ampc = {}
        for c in ch:
            col = [uw(t, c) for t in range(nsw)]
            ampc[c] = models.ptp_terms([[v] for v in col])[0]
        obl = []
        mxa = None
        for c in ch:
            mxa = ampc[c] if mxa is None else ite(ampc[c] > mxa, ampc[c], mxa)
        obl.append((ampc[ch[0]] == mxa, 'first listed channel is not the peak channel'))
        obl.append((ampc[best] == mxa if best in ampc else False, 'best_channel is not a peak channel'))
        for j, c in enumerate(ch):
            for t in range(nsw):
                obl.append((tpl.a[t, j] == uw(t, c), 'column %d is not the template on channel %d' % (j, c)))
            obl.append((ampl[j] == ampc[c], 'amplitude[%d] is not the peak-to-peak of channel %d' % (j, c)))
            if j:
                obl.append((ampc[ch[j - 1]] >= ampc[c], 'channels not in decreasing amplitude order'))
        e.prove_all(obl)
        e.witness()

    e.explore(fn)


# ------------------------------------------------------------------------------------------

def _check_record(b, U, nsw, expect_set=None, tol=1e-5):
    ch = [int(v) for v in b.channel_ids]
    tpl = np.asarray(b.template)
    ampl = np.asarray(b.amplitude)
    amp = U.max(axis=0) - U.min(axis=0)
    if len(set(ch)) != len(ch):
        return 'channels not distinct: %s' % ch
    if tpl.shape != (nsw, len(ch)) or len(ampl) != len(ch):
        return 'shapes: template %s, amplitude %d entries, %d channels' % (tpl.shape, len(ampl), len(ch))
    if abs(amp[ch[0]] - amp.max() if expect_set is None else amp[ch[0]] - max(amp[c] for c in ch)) > tol:
        return 'first channel %d is not the peak channel (amplitudes %s)' % (ch[0], amp.tolist())
    for j, c in enumerate(ch):
        if not np.allclose(tpl[:, j], U[:, c], atol=tol):
            return 'column %d is not the template on channel %d' % (j, c)
        if abs(ampl[j] - amp[c]) > tol:
            return 'amplitude %s is not aligned with channels %s whose amplitudes are %s' % (
                ampl.tolist(), ch, [float(amp[c]) for c in ch])
        if j and amp[ch[j - 1]] < amp[c] - tol:
            return 'channels %s not in decreasing amplitude order %s' % (ch, [float(amp[c]) for c in ch])
    return None


def replay(case):
    kind, nc, nsw = case['kind'], case['nc'], case['nsw']
    wmi = models.wmi_matrix(case['wmi'], nc)
    from symx.loader import real_phylib
    real_phylib()
    from phylib.utils import Bunch
    if kind.startswith('dense'):
        data = np.array(case['data'], dtype=np.float64).reshape(1, nsw, nc)
        m = models.build_real_model(nc, case['geom'], case['wmi'], case['ncl'], threshold=case.get('model_thr', 0))
        m.sparse_templates = Bunch(data=data, cols=None)
        m.template_ids = np.array([0])
        m.spike_templates = np.array([0, 0], dtype=np.int32)
        m.spike_clusters = np.array([0, 0], dtype=np.int32)
        U = data[0] @ wmi if case['unwhiten'] else data[0]
        amp = U.max(axis=0) - U.min(axis=0)
        try:
            if kind == 'dense_explicit':
                b = m.get_template(0, channel_ids=np.array([nc - 1, 0]))
                if [int(v) for v in b.channel_ids] != [nc - 1, 0] or not np.allclose(b.template, U[:, [nc - 1, 0]], atol=1e-5):
                    return 'explicit channel list: wrong columns'
                return None
            if kind == 'dense_helpers':
                b = m.get_template(0)
                ch = [int(v) for v in b.channel_ids]
                if [int(v) for v in m.get_template_channels(0)] != ch or [int(v) for v in m.get_cluster_channels(0)] != ch:
                    return 'helper channel lists differ'
                if [int(v) for v in m._template_n_channels(0, nc + 1)] != ch[:nc + 1] + [-1] * (nc + 1 - len(ch)):
                    return '_template_n_channels padding'
                if not np.allclose(m.get_template_waveforms(0), U[:, ch], atol=1e-5):
                    return 'get_template_waveforms columns'
                return None
            if case.get('first_call'):
                m.get_template(0, amplitude_threshold=case['thr'], unwhiten=not case['unwhiten'])
                m.get_template(0, unwhiten=case['unwhiten'])
            b = m.get_template(0, amplitude_threshold=case['thr'], unwhiten=case['unwhiten'])
        except Exception as ex:
            return 'get_template raised %r' % (ex,)
        msg = _check_record(b, U, nsw)
        if msg:
            return msg
        best = int(b.best_channel)
        thr = case['thr'] if case['thr'] is not None else case.get('model_thr', 0)
        near = models.closest(case['geom'], nc, best, case['ncl'])
        shanks = models.GEOMS[case['geom']](nc)[1]
        ch = [int(v) for v in b.channel_ids]
        for c in range(nc):
            member = c in near and shanks[c] == shanks[best]
            margin = amp[c] - thr * amp.max()
            if abs(margin) < 1e-6 and member:
                continue
            want = member and margin >= 0
            if want != (c in ch):
                return 'channel %d wrongly %s (listed %s, amplitudes %s, nearest %s)' % (
                    c, 'listed' if c in ch else 'omitted', ch, amp.tolist(), near)
        return None
    nloc = case['nloc']
    data = np.array(case['data'], dtype=np.float64).reshape(1, nsw, nloc)
    cols = np.array(case['cols'], dtype=np.int32).reshape(1, nloc)
    m = models.build_real_model(nc, 'line', case['wmi'], 12)
    m.sparse_templates = Bunch(data=data, cols=cols)
    try:
        b = m.get_template(0, unwhiten=case['unwhiten'])
    except Exception as ex:
        return 'get_template (sparse) raised %r' % (ex,)
    absmax = np.abs(data[0]).max(axis=0)
    keep = [k for k in range(nloc) if absmax[k] > absmax.max() * 1e-6 and cols[0, k] != -1]
    ch = [int(v) for v in b.channel_ids]
    if sorted(ch) != sorted(int(cols[0, k]) for k in keep):
        return 'sparse channels %s, expected the stored channels with signal %s' % (ch, [int(cols[0, k]) for k in keep])
    kc = [int(cols[0, k]) for k in keep]
    sub = data[0][:, keep]
    Uk = sub @ wmi[np.ix_(kc, kc)] if case['unwhiten'] else sub
    U = np.zeros((nsw, nc))
    U[:, kc] = Uk
    return _check_record(b, U, nsw, expect_set=kc)


def classify(case, failure):
    return None


if __name__ == '__main__':
    sys.exit(harness.main('checks.c05'))
