"""Symbolic multi-probe input datasets on the virtual file system + real counterparts (C11, C12, C14)."""
import os
import shutil
import tempfile
import itertools
import z3
import numpy as np

from symx import core, vfs, symnp as snp
from symx.core import SymInt, SymReal, sand, sor, ite

PARAMS = ('dat_path = "data.bin"\nn_channels_dat = %d\ndtype = "int16"\noffset = 0\nsample_rate = %s\n'
          'hp_filtered = False\n')
TSV_FILES = ['cluster_Amplitude.tsv', 'cluster_ContamPct.tsv', 'cluster_KSLabel.tsv']


def _arr(vals, shape, dt):
    return snp.ndarray(snp._fromlist(list(vals), shape), dt)


class Probe(object):
    pass


def build(e, cfg):
    """cfg: P, spikes [n_p], nch [C_p], ntpl [T_p], nsw, sym ('spikes'|'channels'), id dtypes ..."""
    fs = vfs.fs()
    P = cfg['P']
    sym_spk = cfg['sym'] == 'spikes'
    sym_ch = cfg['sym'] == 'channels'
    probes = []
    fs.mkdir('/in')
    for p in range(P):
        pr = Probe()
        d = '/in/probe%d' % p
        fs.mkdir(d)
        pr.dir = d
        n, C, T, nsw = cfg['spikes'][p], cfg['nch'][p], cfg['ntpl'][p], cfg['nsw']
        pr.n, pr.C, pr.T = n, C, T
        idt = cfg.get('id_dtypes', ['int32'] * P)[p]
        tdt = cfg.get('time_dtypes', ['uint64'] * P)[p]
        pr.idt, pr.tdt = idt, tdt
        pr.rate = 30000.0
        pr.ncd = C + p      # raw channel count per probe (differs per probe)
        fs.add(d + '/params.py', vfs.Entry('text', text=PARAMS % (pr.ncd, repr(pr.rate))))
        # ---- spikes ----
        if sym_spk:
            ts = []
            prev = 0
            for i in range(n):
                t = e.int('t%d_%d' % (p, i), 0, 2 ** 40)
                e.assume(t >= prev)
                prev = t
                ts.append(t)
            e.prefer.append(ts[-1] <= 9)
            am = [e.real('a%d_%d' % (p, i)) for i in range(n)]
            for a in am:
                e.prefer.append(sor(*[a == SymReal(z3.RealVal(k)) for k in (1, 2, 3)]))
            if cfg.get('sym_ids', True):
                st = [e.int('st%d_%d' % (p, i), 0, T - 1) for i in range(n)]
                sc = [e.int('sc%d_%d' % (p, i), 0, T + 1) for i in range(n)]
            else:
                st = [(i + p) % T for i in range(n)]
                sc = [(2 * i + p) % (T + 2) for i in range(n)]     # curated ids with gaps
        else:
            ts = [3 * i + p for i in range(n)]
            am = [1.0 + i for i in range(n)]
            st = [(i + p) % T for i in range(n)]
            st[-1] = T - 1
            if cfg.get('unused_last_template') and p < P - 1 and T >= 2:
                st = [0] * n          # the last template(s) of this probe have no spike
            sc = list(st)
        pr.ts, pr.am, pr.st, pr.sc = ts, am, st, sc
        fs.add(d + '/spike_times.npy', vfs.npy_entry(_arr(ts, (n, 1) if cfg.get('col_vectors') else (n,), tdt)))
        fs.add(d + '/amplitudes.npy', vfs.npy_entry(_arr(am, (n,), 'float64')))
        fs.add(d + '/spike_templates.npy', vfs.npy_entry(_arr(st, (n,), idt)))
        fs.add(d + '/spike_clusters.npy', vfs.npy_entry(_arr(sc, (n,), idt)))
        # ---- per-cluster TSVs ----
        pr.tsv = {}
        for fn in TSV_FILES:
            want = [TSV_FILES[0]] if cfg.get('one_tsv') else [TSV_FILES[0], TSV_FILES[2 - (p % 2)]]
            if not sym_spk or fn not in want:
                continue
            present = e.bool('has_%s_%d' % (fn[8:-4], p))
            k1 = e.int('k%d_%s' % (p, fn[8:11]), 0, 2 ** 20)   # cluster ids of a table are ordinary ids
            e.prefer.append(k1 <= 5)
            # metadata rows describe clusters of this probe: id <= highest cluster id of the probe
            e.assume(sor(*[k1 <= c for c in sc]))
            if fn == 'cluster_KSLabel.tsv':
                v1 = 'good' if p % 2 else 'mua'
                text = 'cluster_id\tKSLabel\n%s\t%s\n' % (k1, v1)
            else:
                v1 = e.int('v%d_%s' % (p, fn[8:11]))
                e.prefer.append(sand(v1 >= 0, v1 <= 9))
                text = 'cluster_id\t%s\n%s\t%s\n' % (fn[8:-4], k1, v1)
            ent = vfs.Entry('text', text=text)
            ent.present = present
            fs.add(d + '/' + fn, ent)
            pr.tsv[fn] = (present, k1, v1)
        # ---- channels ----
        if sym_ch:
            cm = [e.int('cm%d_%d' % (p, c), 0, pr.ncd - 1) for c in range(C)]
            for a, b in itertools.combinations(cm, 2):
                e.assume(a != b)
            pos = [[e.real('x%d_%d' % (p, c)), e.real('y%d_%d' % (p, c))] for c in range(C)]
            for xy in pos:
                e.assume(sand(xy[0] >= 0, xy[1] >= 0))
                e.prefer.append(sand(xy[0] <= 40, xy[1] <= 40))
            for a, b in itertools.combinations(pos, 2):
                e.assume(sor(a[0] != b[0], a[1] != b[1]))
        else:
            cm = list(range(C))[::-1] if p % 2 else list(range(C))
            pos = [[10.0 * (c % 2) + 1, 20.0 * c] for c in range(C)]
        pr.cm, pr.pos = cm, pos
        cmdt = cfg.get('map_dtypes', ['int32'] * P)[p]
        fs.add(d + '/channel_map.npy', vfs.npy_entry(_arr(cm, (C,), cmdt)))
        fs.add(d + '/channel_positions.npy', vfs.npy_entry(_arr([v for xy in pos for v in xy], (C, 2), 'float64')))
        # ---- templates ----
        if sym_ch:
            tv = [e.real('w%d_%d' % (p, k)) for k in range(T * nsw * C)]
            for v in tv:
                e.prefer.append(sor(*[v == SymReal(z3.RealVal(k)) for k in (-1, 1, 2)]))
        else:
            tv = [float(((k * 7 + p) % 5) - 2 + (3 if k % (nsw * C) == 0 else 0)) for k in range(T * nsw * C)]
        pr.tv = tv
        fs.add(d + '/templates.npy', vfs.npy_entry(_arr(tv, (T, nsw, C), cfg.get('tpl_dtypes', [cfg.get('tpl_dtype', 'float32')] * P)[p])))
        # ---- index tables ----
        kk = 2      # same table width in every probe (a sorter setting), entries may repeat
        k2 = 2
        if sym_ch or cfg.get('sym_tables'):
            pci = [e.int('pci%d_%d' % (p, k), 0, C - 1) for k in range(T * kk)]
            tfi = [e.int('tfi%d_%d' % (p, k), 0, T - 1) for k in range(T * k2)]
        else:
            pci = [(k % C) for k in range(T * kk)]
            tfi = [(k % T) for k in range(T * k2)]
        pr.pci, pr.tfi, pr.kk, pr.k2 = pci, tfi, kk, k2
        tdt_ = cfg.get('table_dtypes', ['int32'] * P)[p]
        fs.add(d + '/pc_feature_ind.npy', vfs.npy_entry(_arr(pci, (T, kk), tdt_)))
        fs.add(d + '/template_feature_ind.npy', vfs.npy_entry(_arr(tfi, (T, k2), tdt_)))
        # ---- matrices ----
        pr.mats = {}
        for fn, size in (('similar_templates.npy', T), ('whitening_mat.npy', C), ('whitening_mat_inv.npy', C)):
            if sym_ch:
                mv = [e.real('m%s%d_%d' % (fn[0], p, k)) for k in range(size * size)]
            else:
                mv = [float((k + p) % 3) for k in range(size * size)]
            present = True
            if cfg.get('optional_matrices') and fn == cfg.get('optional_matrix', 'similar_templates.npy') and p == P - 1:
                present = e.bool('has_sim_%d' % p) if sym_ch else True
            ent = vfs.npy_entry(_arr(mv, (size, size), 'float64'))
            ent.present = present
            fs.add(d + '/' + fn, ent)
            pr.mats[fn] = (mv, size, present)
        probes.append(pr)
    return probes


def case_of(ev, cfg, probes):
    out = {'cfg': cfg, 'probes': []}
    for pr in probes:
        out['probes'].append({
            'ts': ev(pr.ts), 'am': ev(pr.am), 'st': ev(pr.st), 'sc': ev(pr.sc), 'cm': ev(pr.cm),
            'pos': [ev(xy) for xy in pr.pos], 'tv': ev(pr.tv), 'pci': ev(pr.pci), 'tfi': ev(pr.tfi),
            'tsv': {fn: [bool(ev(v[0])), ev(v[1]), v[2] if isinstance(v[2], str) else ev(v[2])]
                    for fn, v in pr.tsv.items()},
            'mats': {fn: [ev(v[0]), v[1], bool(ev(v[2])) if not isinstance(v[2], bool) else v[2]]
                     for fn, v in pr.mats.items()},
        })
    return out


# ------------------------------------------------------------------------------------------
# real side
# ------------------------------------------------------------------------------------------

class RealProbes(object):
    def __init__(self, case):
        from symx.loader import real_phylib
        real_phylib()
        cfg = case['cfg']
        self.cfg = cfg
        self.root = tempfile.mkdtemp(prefix='phyv_merge_')
        self.subdirs = []
        P = cfg['P']
        for p in range(P):
            pr = case['probes'][p]
            d = os.path.join(self.root, 'probe%d' % p)
            os.makedirs(d)
            n, C, T, nsw = cfg['spikes'][p], cfg['nch'][p], cfg['ntpl'][p], cfg['nsw']
            idt = cfg.get('id_dtypes', ['int32'] * P)[p]
            tdt = cfg.get('time_dtypes', ['uint64'] * P)[p]
            with open(os.path.join(d, 'params.py'), 'w') as f:
                f.write(PARAMS % (C + p, repr(30000.0)))
            ts = np.array(pr['ts'], dtype=tdt)
            np.save(os.path.join(d, 'spike_times.npy'), ts.reshape(-1, 1) if cfg.get('col_vectors') else ts)
            np.save(os.path.join(d, 'amplitudes.npy'), np.array(pr['am'], dtype=np.float64))
            np.save(os.path.join(d, 'spike_templates.npy'), np.array(pr['st'], dtype=idt))
            np.save(os.path.join(d, 'spike_clusters.npy'), np.array(pr['sc'], dtype=idt))
            for fn, (present, k1, v1) in pr['tsv'].items():
                if present:
                    with open(os.path.join(d, fn), 'w') as f:
                        f.write('cluster_id\t%s\n%s\t%s\n' % (fn[8:-4], k1, v1))
            np.save(os.path.join(d, 'channel_map.npy'),
                    np.array(pr['cm'], dtype=cfg.get('map_dtypes', ['int32'] * P)[p]))
            np.save(os.path.join(d, 'channel_positions.npy'), np.array(pr['pos'], dtype=np.float64).reshape(C, 2))
            np.save(os.path.join(d, 'templates.npy'),
                    np.array(pr['tv'], dtype=cfg.get('tpl_dtypes', [cfg.get('tpl_dtype', 'float32')] * P)[p]).reshape(T, nsw, C))
            tdt_ = cfg.get('table_dtypes', ['int32'] * P)[p]
            np.save(os.path.join(d, 'pc_feature_ind.npy'), np.array(pr['pci'], dtype=tdt_).reshape(T, -1))
            np.save(os.path.join(d, 'template_feature_ind.npy'), np.array(pr['tfi'], dtype=tdt_).reshape(T, -1))
            for fn, (mv, size, present) in pr['mats'].items():
                if present:
                    np.save(os.path.join(d, fn), np.array(mv, dtype=np.float64).reshape(size, size))
            self.subdirs.append(d)
        self.out = os.path.join(self.root, 'merged')

    def snapshot(self):
        import hashlib
        out = {}
        for d in self.subdirs:
            for fn in sorted(os.listdir(d)):
                out[os.path.join(d, fn)] = hashlib.md5(open(os.path.join(d, fn), 'rb').read()).hexdigest()
        return out

    def close(self):
        shutil.rmtree(self.root, ignore_errors=True)
