"""C19 Event dispatch follows registration order, sender filters and silencing; progress completion."""
import sys
import z3
import numpy as np

from symx import core, env, harness, vfs
from symx.core import SymInt, SymBool, Sym

PID = 'C19'
FUNCTIONS = ['phylib/utils/event.py:' + f for f in (
    'EventEmitter.__init__', 'EventEmitter.reset', 'EventEmitter.set_silent', 'EventEmitter.silent',
    'EventEmitter.connect', 'EventEmitter.unconnect', 'EventEmitter.emit', 'EventEmitter._get_on_name',
    'ProgressReporter._set_value', 'ProgressReporter.increment', 'ProgressReporter.reset',
    'ProgressReporter.value', 'ProgressReporter.value_max', 'ProgressReporter.set_complete',
    'ProgressReporter.is_complete')]
BOUNDS = {
    'quick': {'emitter_history': '3 (full alphabet) + 4 (narrowed alphabet)', 'reporter_history': 4,
              'unbounded': ['all integer arguments of the reporter', 'emitted arguments (opaque)']},
    'thorough': {'emitter_history': '3 (full alphabet) + 4 and 5 (narrowed alphabet)', 'reporter_history': 5,
                 'unbounded': ['all integer arguments of the reporter', 'emitted arguments (opaque)']},
}
ASSUMPTIONS = [
    'emitter alphabet: 2 events, 2 senders + None filter, 3 callbacks (two functions connectable by name, one '
    'bound method), last flag, connect by name / explicit event, unconnect by callback / sender / bound object, '
    'reset, set_silent, emit plain / inside one silent() context / inside two nested contexts, single flag',
    'events, senders and flags are symbolic values compared by the real code; the discrete choices are '
    'enumerated by the solver (bounded-exhaustive in the history length)',
    'silenced = set_silent(True) in force, or inside at least one silent() context',
    'symmetry: for histories of length >= 3 the final emit uses event 0 / sender 0 (events and senders are '
    'interchangeable in the code under check); only the last operation of a history is an emit (emits do not '
    'change emitter state; the silence flag is checked after each emit)',
    'reporter: reset() sets the value (to 0), which re-arms completion when 0 is below the maximum; reset(max) '
    'that raises the maximum re-arms too',
    'senders are value-equal fresh objects at every use (class with __eq__/__hash__): the filter must compare by equality as the statement says',
]
STUBS = []
OUTSIDE = ['longer histories', 'callbacks that raise or that connect/unconnect re-entrantly']
WITNESS_CAP = {'quick': 40, 'thorough': 100}


def configs(tier):
    quick = tier == 'quick'
    out = []
    H = 3
    # the first operation is fixed per config (parallelism); the last one is always an emit
    for h in range(1, H + 1):
        if h == 1:
            out.append({'kind': 'emitter', 'h': 1, 'first': None, 'family': 'full'})
        else:
            for first in EM_NONEMIT:
                out.append({'kind': 'emitter', 'h': h, 'first': first, 'family': 'full'})
    # deeper on a narrowed alphabet: two explicit-event connects, any further operations, one event
    for hh in ((H + 1,) if quick else (H + 1, H + 2)):
        for first in EM_NONEMIT:
            if EM_OPS[first][0] == 'connect' and EM_OPS[first][1][1] == 'event':
                if hh <= H + 1:
                    out.append({'kind': 'emitter', 'h': hh, 'first': first, 'family': 'narrow'})
                    continue
                for second in EM_NONEMIT:
                    if EM_OPS[second][0] == 'connect' and EM_OPS[second][1][1] == 'event':
                        out.append({'kind': 'emitter', 'h': hh, 'first': first, 'second': second, 'family': 'narrow'})
    R = 4 if quick else 5
    for h in range(1, R + 1):
        if h <= 2:
            out.append({'kind': 'reporter', 'h': h, 'first': None})
        else:
            for first in range(len(RP_OPS)):
                out.append({'kind': 'reporter', 'h': h, 'first': first})
    return out


# emitter operations: (name, concrete parameter)
EM_OPS = [('connect', (cb, style, filt)) for cb in (0, 1, 2) for style in ('name', 'event')
          for filt in (False, True) if not (cb == 2 and style == 'name')] + \
         [('unconnect_cb', 0), ('unconnect_cb', 1), ('unconnect_cb', 2), ('unconnect_sender', None),
          ('unconnect_self', None), ('reset', None), ('set_silent', None)] + \
         [('emit', w) for w in (0, 1, 2)]
EM_EMITS = [i for i, o in enumerate(EM_OPS) if o[0] == 'emit']
EM_NONEMIT = [i for i, o in enumerate(EM_OPS) if o[0] != 'emit']
RP_OPS = ['increment', 'set_value', 'set_max', 'set_complete', 'reset', 'reset_max']
EVENTS = ['spam', 'eggs']


class _Obj(object):
    def __init__(self, log, cid):
        self.log, self.cid = log, cid

    def method(self, sender, *args, **kwargs):
        tok = object()
        self.log.append((self.cid, sender, args, kwargs, tok))
        return tok


def _truth(x):
    return bool(x)


class _Sender(object):
    """senders compare by value: every use below creates a fresh, equal object (the property says 'equals')"""
    def __init__(self, k):
        self.k = k

    def __eq__(self, other):
        return isinstance(other, _Sender) and other.k == self.k

    def __ne__(self, other):
        return not self.__eq__(other)

    def __hash__(self):
        return hash(('sender', self.k))

    def __repr__(self):
        return 'sender%d' % self.k


class _Senders(object):
    def __getitem__(self, i):
        return _Sender(i)

    def index(self, s):
        return s.k


def run_emitter(evmod, script):
    """Run a script on a fresh EventEmitter and on the reference model; return failure or None.
    Values in the script may be symbolic (events as ints 0/1, senders as ints, flags as bools)."""
    em = evmod.EventEmitter()
    log = []
    senders = _Senders()

    def mkfun(cid, name):
        def f(sender, *args, **kwargs):
            tok = object()
            log.append((cid, sender, args, kwargs, tok))
            return tok
        f.__name__ = name
        return f
    obj = _Obj(log, 2)
    regs = []            # reference: (event_idx, sender_or_None, cid, last)
    silent_flag = False
    for op, par, vals in script:
        if op == 'connect':
            cb, style, filt = par
            evi, sidx, last = vals['event'], vals['sender'], vals['last']
            # event index is symbolic: resolve it (the name is needed to build the function)
            evi = 1 if _truth(evi == 1) else 0
            func = obj.method if cb == 2 else mkfun(cb, 'on_' + EVENTS[evi] if style == 'name' else 'cb%d' % cb)
            snd = None
            if filt:
                snd = senders[1 if _truth(sidx == 1) else 0]
            kw = {}
            if _truth(last):
                kw['last'] = True
            if style == 'name':
                em.connect(func, sender=snd, **kw)
            else:
                em.connect(func, event=EVENTS[evi], sender=snd, **kw)
            regs.append((evi, snd, cb, bool(kw), func))
        elif op == 'unconnect_cb':
            targets = [r[4] for r in regs if r[2] == par]
            if par == 2:
                targets = [obj.method]
            elif not targets:
                targets = [mkfun(par, 'cb')]
            # unconnect every function object registered for this callback id
            em.unconnect(*targets)
            regs = [r for r in regs if not any(r[4] == t for t in targets)]
        elif op == 'unconnect_sender':
            snd = senders[1 if _truth(vals['sender'] == 1) else 0]
            em.unconnect(snd)
            regs = [r for r in regs if r[1] is None or r[1] != snd]
        elif op == 'unconnect_self':
            em.unconnect(obj)
            regs = [r for r in regs if r[2] != 2]
        elif op == 'reset':
            em.reset()
            regs = []
        elif op == 'set_silent':
            v = _truth(vals['flag'])
            em.set_silent(v)
            silent_flag = v
        elif op == 'emit':
            evi = 1 if _truth(vals['event'] == 1) else 0
            snd = senders[1 if _truth(vals['sender'] == 1) else 0]
            single = _truth(vals['single'])
            arg = vals['arg']
            del log[:]
            kw = {'key': arg}
            if single:
                kw['single'] = True
            if par == 0:
                ret = em.emit(EVENTS[evi], snd, arg, **kw)
            elif par == 1:
                with em.silent():
                    ret = em.emit(EVENTS[evi], snd, arg, **kw)
            else:
                with em.silent():
                    with em.silent():
                        ret = em.emit(EVENTS[evi], snd, arg, **kw)
            silenced = silent_flag or par > 0
            order = [r for r in regs if not r[3]] + [r for r in regs if r[3]]
            exp = [r for r in order if r[0] == evi and (r[1] is None or r[1] == snd)]
            if silenced:
                exp = []
            elif single:
                exp = exp[:1]
            got = [(c[0]) for c in log]
            if got != [r[2] for r in exp]:
                return 'emit(%s, sender%d, single=%s, silent contexts=%d, set_silent=%s) called callbacks %s, ' \
                       'expected %s' % (EVENTS[evi], senders.index(snd), single, par, silent_flag, got,
                                        [r[2] for r in exp])
            for c in log:
                if c[1] is not snd or len(c[2]) != 1 or c[2][0] is not arg or list(c[3].keys()) != ['key'] \
                        or c[3]['key'] is not arg:
                    return 'callback received altered sender/arguments'
            if silenced:
                if ret is not None and ret != []:
                    return 'emit returned %r while silenced' % (ret,)
            elif single:
                if exp and ret is not log[0][4]:
                    return 'single emit did not return the first result'
            else:
                if not isinstance(ret, list) or len(ret) != len(log) or any(a is not c[4] for a, c in zip(ret, log)):
                    return 'emit did not return the results in call order'
            if em.is_silent != silent_flag and not isinstance(em.is_silent, Sym):
                return 'silence flag not restored after the context (is_silent=%r, expected %r)' % (
                    em.is_silent, silent_flag)
    return None


def run_reporter(evmod, script):
    evmod.reset()
    evmod.set_silent(False)
    pr = evmod.ProgressReporter()
    n = [0]

    @evmod.connect(sender=pr)
    def on_complete(sender, **kw):
        n[0] += 1
    value, vmax, armed = 0, 0, True
    for step, (op, par, vals) in enumerate(script):
        before = n[0]
        expect = 0
        upd = None
        if op == 'increment':
            pr.increment()
            upd = value + 1
        elif op == 'set_value':
            pr.value = vals['v']
            upd = vals['v']
        elif op == 'set_complete':
            pr.set_complete()
            upd = vmax
        elif op == 'set_max':
            m = vals['v']
            pr.value_max = m
            if _truth(m > vmax):
                armed = True
            vmax = m
        elif op == 'reset':
            pr.reset()
            value = 0
            if _truth(value < vmax):
                armed = True
        elif op == 'reset_max':
            m = vals['v']
            pr.reset(m)
            value = 0
            if _truth(m > vmax):
                armed = True
            vmax = m
            if _truth(value < vmax):
                armed = True
        if upd is not None:
            value = upd
            if _truth(value < vmax):
                armed = True
            if _truth(value >= vmax) and armed:
                expect = 1
                armed = False
        got = n[0] - before
        if got != expect:
            return 'step %d (%s): %d completion announcement(s), expected %d' % (step, op, got, expect)
        if not _truth(pr.value == value) or not _truth(pr.value_max == vmax):
            return 'step %d (%s): value/value_max differ from the reference' % (step, op)
        if _truth(pr.is_complete()) != _truth(value >= vmax):
            return 'is_complete() wrong'
    return None


def run_config(cfg, e):
    kind = cfg['kind']
    pkg = env.make_pkg(record=e.functions)
    evmod = pkg.load('phylib.utils.event')
    h = cfg['h']

    def fn():
        script = []
        if kind == 'emitter':
            fam = cfg.get('family', 'full')
            for i in range(h):
                if i == h - 1:
                    oi = e.choice('op%d' % i, EM_EMITS)
                elif i == 0 and cfg['first'] is not None:
                    oi = cfg['first']
                elif i == 1 and cfg.get('second') is not None:
                    oi = cfg['second']
                else:
                    # intermediate emits do not change the emitter state (callbacks are not
                    # re-entrant; the silence flag is checked right after every emit)
                    allowed = [k for k in EM_NONEMIT if not (fam == 'narrow' and i < 2 and not (
                        EM_OPS[k][0] == 'connect' and EM_OPS[k][1][1] == 'event'))]
                    oi = e.choice('op%d' % i, allowed)
                op, par = EM_OPS[oi]
                vals = {}
                if op in ('connect', 'emit', 'unconnect_sender'):
                    vals['sender'] = e.int('snd%d' % i, 0, 1)
                if op in ('connect', 'emit'):
                    vals['event'] = e.int('ev%d' % i, 0, 1)
                if op == 'connect':
                    vals['last'] = e.bool('last%d' % i)
                if op == 'set_silent':
                    vals['flag'] = e.bool('flag%d' % i)
                if op == 'emit':
                    vals['single'] = e.bool('single%d' % i)
                    vals['arg'] = e.int('arg%d' % i)
                    if h >= 3:
                        # events and senders are interchangeable: the final emit is on event 0 / sender 0
                        e.assume(core.sand(vals['event'] == 0, vals['sender'] == 0))
                    if fam == 'narrow':
                        e.assume(core.snot(vals['single']))
                if fam == 'narrow' and 'event' in vals:
                    e.assume(vals['event'] == 0)
                script.append((op, par, vals))
        else:
            for i in range(h):
                if i == 0 and cfg['first'] is not None:
                    oi = cfg['first']
                else:
                    oi = e.choice('op%d' % i, list(range(len(RP_OPS))))
                op = RP_OPS[oi]
                vals = {}
                if op in ('set_value', 'set_max', 'reset_max'):
                    vals['v'] = e.int('v%d' % i)
                    e.prefer.append(core.sand(vals['v'] >= -3, vals['v'] <= 5))
                script.append((op, None, vals))

        def case(ev):
            return {'kind': kind, 'script': [[op, par, {k: ev(v) for k, v in vals.items()}]
                                             for op, par, vals in script]}
        e.case_builder = case
        try:
            msg = run_emitter(evmod, script) if kind == 'emitter' else run_reporter(evmod, script)
        except Exception as ex:
            e.fail('exception %r' % (ex,))
        if msg:
            e.fail(msg)
        e.stats.inc('obligations')
        e.stats.inc('discharged')
        e.witness()

    e.explore(fn)


def replay(case):
    from symx.loader import real_phylib
    real_phylib()
    import phylib.utils.event as evmod
    script = []
    for op, par, vals in case['script']:
        if isinstance(par, list):
            par = tuple(par)
        script.append((op, par, dict(vals)))
    try:
        if case['kind'] == 'emitter':
            return run_emitter(evmod, script)
        return run_reporter(evmod, script)
    except Exception as ex:
        return 'raised %r' % (ex,)
    finally:
        evmod.reset()
        evmod.set_silent(False)


def classify(case, failure):
    return None


if __name__ == '__main__':
    sys.exit(harness.main('checks.c19'))
