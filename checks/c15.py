"""C15 Correlograms count exactly the spike pairs in each lag bin."""
import sys
import itertools
import z3
import numpy as np

from symx import core, env, lam, harness, vfs, symnp as snp
from symx.core import SymInt, SymReal, sand, sor, snot, implies, ite, ssum

PID = 'C15'
FUNCTIONS = ['phylib/stats/ccg.py:' + f for f in (
    'correlograms', '_increment', '_diff_shifted', '_create_correlograms_array', '_symmetrize_correlograms',
    'firing_rate')] + ['phylib/io/array.py:_index_of', 'phylib/io/array.py:_unique',
                       'phylib/utils/_types.py:_as_array']
BOUNDS = {
    'quick': {'n_spikes': '0..4', 'cluster_id_lists': 'orderings of subsets of {0,1,3} (<=3 ids) and None',
              'binsize_samples': [1, 2, 3], 'half_window_bins': [0, 1, 2], 'sample_rate': [1.0, 2.0],
              'unbounded': ['spike times (non-decreasing integers / rate)']},
    'thorough': {'n_spikes': '0..6', 'cluster_id_lists': 'orderings of subsets of {0,1,3,4} and None',
                 'binsize_samples': [1, 2, 3], 'half_window_bins': [0, 1, 2, 3], 'sample_rate': [1.0, 2.0],
                 'unbounded': ['spike times (non-decreasing integers / rate)']},
}
ASSUMPTIONS = [
    'spike times are k / sample_rate for integers k (so time*rate is exact: the property\'s own restriction), '
    'non-decreasing, 0 <= k; every spike\'s cluster is in the id list (docstring precondition)',
    'cluster labels are solver-enumerated (the lookup gather concretises them); times stay symbolic',
    'int32 overflow of counts and float->int truncation of inexact products are outside the model',
    'forms added after seeding rounds: float32 spike times beyond 2**24 samples at 3 Hz (exact arithmetic in the symbolic run, real float32 in the replays; the oracle truncates float64(t32) * rate)',
]
STUBS = []
OUTSIDE = ['more spikes than the bound', 'inexact time*rate', 'count overflow']
WITNESS_CAP = {'quick': 25, 'thorough': 50}
LOOP_BOUND = 16
CONFIG_BUDGET_S = {'quick': 300, 'thorough': 3000}


def configs(tier):
    quick = tier == 'quick'
    out = []
    idlists = [[0], [3], [0, 1], [3, 0], [1, 3, 0], [0, 1, 3], None, [200, 3]]     # last: sparse, non-ascending ids
    if not quick:
        idlists += [[4, 1], [3, 1, 0], [0, 4, 1, 3]]
    N = 4 if quick else 6
    for n in range(0, N + 1):
        for ids in idlists:
            nid = 3 if ids is None else len(ids)
            if quick:
                if n == 4 and not (ids in ([0], [3, 0])):
                    continue
                if ids == [200, 3] and n > 3:
                    continue
            else:
                if n == 4 and nid > 2 and ids is not None and ids != [1, 3, 0]:
                    continue
                if n == 5 and nid > 2:
                    continue
                if n >= 6 and nid > 1:
                    continue
            for b in (1, 2, 3):
                for half in ((0, 1, 2) if quick else (0, 1, 2, 3)):
                    if quick and n == 4 and (b == 3 or (ids == [3, 0] and half == 2)):
                        continue
                    if not quick and n >= 5 and (b + half) % 2 == 1:
                        continue
                    rate = 1.0 if (b + half) % 2 == 0 else 2.0
                    out.append({'kind': 'ccg', 'n': n, 'ids': ids, 'bin': b, 'half': half, 'rate': rate})
    for n in (2, 3):
        for b, half in ((1, 1), (2, 2)):
            out.append({'kind': 'ccg', 'n': n, 'ids': [3, 0], 'bin': b, 'half': half, 'rate': 3.0, 'f32': True})
    for n in range(0, 4):
        for ids in ([0], [3, 0], [1, 3, 0], None):
            for dur in (None, 10.0):
                out.append({'kind': 'rate', 'n': n, 'ids': ids, 'dur': dur})
    return out


# single-precision spike times late in a long recording (time * rate above 2**24): the symbolic run is exact
# arithmetic, the replays on real NumPy see the float32 values
F32_BASE = 2 ** 24 + 100


def _inputs(e, cfg):
    n, ids, rate = cfg['n'], cfg['ids'], cfg.get('rate', 1.0)
    ks = []
    base = F32_BASE if cfg.get('f32') else 0
    prev = base
    for i in range(n):
        k = e.int('k%d' % i, base)
        e.assume(k >= prev)
        prev = k
        ks.append(k)
    if ks:
        e.prefer.append(ks[-1] <= base + 12)
    alphabet = ids if ids is not None else [0, 1, 3]
    labs = []
    for i in range(n):
        l = e.int('lab%d' % i)
        e.assume(sor(*[l == a for a in alphabet]))
        labs.append(l)
    r = z3.RealVal(str(rate))
    times = snp.ndarray(snp._fromlist([SymReal(z3.ToReal(k.term) / r) for k in ks], (n,)),
                        'float32' if cfg.get('f32') else 'float64')
    sc = snp.ndarray(snp._fromlist(labs, (n,)), 'int64')
    return ks, labs, times, sc


def run_config(cfg, e):
    kind = cfg['kind']

    pkg = env.make_pkg(record=e.functions)
    ccg = pkg.load('phylib.stats.ccg')

    def fn():
        vfs.reset()
        ks, labs, times, sc = _inputs(e, cfg)
        n, ids = cfg['n'], cfg['ids']
        if kind == 'ccg':
            b, half, rate = cfg['bin'], cfg['half'], cfg['rate']
            bin_size = b / rate
            window = 2 * half * bin_size
            e.case_builder = lambda ev: dict(cfg, ks=ev(ks), labs=ev(labs))
            try:
                if n == 0 and ids is None:
                    return
                C = ccg.correlograms(times, sc, cluster_ids=ids, sample_rate=rate, bin_size=bin_size,
                                     window_size=window, symmetrize=False)
                C = snp.asarray(C).copy()
                S = ccg.correlograms(times, sc, cluster_ids=ids, sample_rate=rate, bin_size=bin_size,
                                     window_size=window, symmetrize=True)
                S = snp.asarray(S)
                idl = ids if ids is not None else [int(v) for v in snp.asarray(
                    pkg.load('phylib.io.array')._unique(sc)).a.tolist()]
            except Exception as ex:
                e.fail('exception %r' % (ex,))
            nc = len(idl)
            e.prove(C.shape == (nc, nc, half + 1), 'one-sided shape %s' % (C.shape,))
            e.prove(S.shape == (nc, nc, 2 * half + 1), 'symmetrised shape %s' % (S.shape,))

            lagt = {(a, bb): (ks[bb].term - ks[a].term) / z3.IntVal(b)
                    for a in range(n) for bb in range(a + 1, n)}
            labt = {(a, c): labs[a].term == c for a in range(n) for c in idl}
            one, zero = z3.IntVal(1), z3.IntVal(0)
            memo = {}

            def want(i, j, k):
                if (i, j, k) in memo:
                    return memo[(i, j, k)]
                terms = [z3.If(z3.And(labt[(a, idl[i])], labt[(bb, idl[j])], lagt[(a, bb)] == k), one, zero)
                         for a in range(n) for bb in range(a + 1, n)]
                r = SymInt(z3.Sum(terms)) if terms else 0
                memo[(i, j, k)] = r
                return r
            obl = []
            for i in range(nc):
                for j in range(nc):
                    for k in range(half + 1):
                        w = want(i, j, k)
                        obl.append((C.a[i, j, k] == w, 'one-sided count C[%d,%d,%d]' % (i, j, k)))
                        if k > 0:
                            obl.append((S.a[i, j, half + k] == w, 'symmetrised positive lag [%d,%d,+%d]' % (i, j, k)))
                            obl.append((S.a[j, i, half - k] == w, 'symmetrised negative lag [%d,%d,-%d]' % (j, i, k)))
                    w0, w1 = want(i, j, 0), want(j, i, 0)
                    obl.append((S.a[i, j, half] == ite(w0 >= w1, w0, w1), 'symmetrised centre [%d,%d]' % (i, j)))
            e.prove_all(obl)
            e.witness()
        else:
            dur = cfg['dur']
            e.case_builder = lambda ev: dict(cfg, ks=ev(ks), labs=ev(labs))
            try:
                if n == 0 and ids is None:
                    return
                F = snp.asarray(ccg.firing_rate(sc, cluster_ids=ids, bin_size=0.5, duration=dur))
                idl = ids if ids is not None else [int(v) for v in snp.asarray(
                    pkg.load('phylib.io.array')._unique(sc)).a.tolist()]
            except Exception as ex:
                e.fail('exception %r' % (ex,))
            nc = len(idl)
            e.prove(F.shape == (nc, nc), 'shape')
            cnt = [ssum([ite(l == c, 1, 0) for l in labs]) if labs else 0 for c in idl]
            f = 0.5 / (dur or 1.0)
            for i in range(nc):
                for j in range(nc):
                    # counts are concrete on each path (labels are enumerated by the gather)
                    ci, cj = core.eng().concretize(core.term_of(cnt[i])), core.eng().concretize(core.term_of(cnt[j]))
                    e.prove(F.a[i, j] == ci * cj * f, 'firing rate [%d,%d]' % (i, j))
            e.witness()

    e.explore(fn)


def replay(case):
    from symx.loader import real_phylib
    real_phylib()
    from phylib.stats import ccg
    ks, labs, ids = case['ks'], case['labs'], case['ids']
    n = len(ks)
    if n == 0 and ids is None:
        return None
    sc = np.array(labs, dtype=np.int64)
    idl = ids if ids is not None else sorted(set(labs))
    nc = len(idl)
    if case['kind'] == 'rate':
        try:
            F = ccg.firing_rate(sc, cluster_ids=ids, bin_size=0.5, duration=case['dur'])
        except Exception as ex:
            return 'firing_rate raised %r' % (ex,)
        cnt = [labs.count(c) for c in idl]
        W = np.outer(cnt, cnt) * (0.5 / (case['dur'] or 1.0))
        return None if F.shape == W.shape and np.allclose(F, W) else 'firing_rate %s expected %s' % (F.tolist(), W.tolist())
    b, half, rate = case['bin'], case['half'], case['rate']
    times = np.array(ks, dtype=np.float64) / rate
    if case.get('f32'):
        times = times.astype(np.float32)
        # the instants the caller actually passed, in samples
        ks = (times.astype(np.float64) * rate).astype(np.int64).tolist()
    bin_size = b / rate
    window = 2 * half * bin_size
    try:
        C = ccg.correlograms(times, sc, cluster_ids=ids, sample_rate=rate, bin_size=bin_size,
                             window_size=window, symmetrize=False).copy()
        S = ccg.correlograms(times, sc, cluster_ids=ids, sample_rate=rate, bin_size=bin_size,
                             window_size=window, symmetrize=True)
    except Exception as ex:
        return 'correlograms raised %r' % (ex,)
    W = np.zeros((nc, nc, half + 1), dtype=int)
    for a in range(n):
        for bb in range(a + 1, n):
            k = (ks[bb] - ks[a]) // b
            if k <= half:
                W[idl.index(labs[a]), idl.index(labs[bb]), k] += 1
    if C.shape != W.shape or not np.array_equal(C, W):
        return 'one-sided %s expected %s (ks=%s labs=%s ids=%s bin=%d half=%d)' % (
            C.tolist(), W.tolist(), ks, labs, ids, b, half)
    WS = np.zeros((nc, nc, 2 * half + 1), dtype=int)
    for i in range(nc):
        for j in range(nc):
            WS[i, j, half] = max(W[i, j, 0], W[j, i, 0])
            for k in range(1, half + 1):
                WS[i, j, half + k] = W[i, j, k]
                WS[j, i, half - k] = W[i, j, k]
    if S.shape != WS.shape or not np.array_equal(S, WS):
        return 'symmetrised %s expected %s' % (S.tolist(), WS.tolist())
    return None


if __name__ == '__main__':
    sys.exit(harness.main('checks.c15'))
