"""C04 Loading a dataset reproduces its files under every supported layout."""
import sys
import os
import z3
import numpy as np

from symx import core, env, lam, harness, vfs, symnp as snp
from symx.core import SymInt, SymReal, SymBool, sand, sor, snot, implies, ite
from checks import datasets
from checks.datasets import RATE

PID = 'C04'
FUNCTIONS = ['phylib/io/model.py:' + f for f in (
    'TemplateModel.__init__', 'TemplateModel._load_data', 'TemplateModel._find_path', '_find_first_existing_path',
    'read_array', 'TemplateModel._read_array', 'TemplateModel._load_spike_samples',
    'TemplateModel._load_amplitudes', 'TemplateModel._load_spike_templates', 'TemplateModel._load_spike_clusters',
    'TemplateModel._load_channel_map', 'TemplateModel._load_channel_positions',
    'TemplateModel._load_channel_shanks', 'TemplateModel._load_channel_probes', 'TemplateModel._load_templates',
    'TemplateModel._load_wm', 'TemplateModel._load_wmi', 'TemplateModel._compute_wmi',
    'TemplateModel._load_similar_templates', 'TemplateModel._load_traces', 'TemplateModel._load_features',
    'TemplateModel._load_template_features', 'TemplateModel._load_spike_attributes',
    'TemplateModel._load_metadata', 'get_template_params', 'load_model', '_make_abs_path')] + [
    'phylib/utils/_misc.py:read_python', 'phylib/io/traces.py:get_ephys_reader']
BOUNDS = {
    'quick': {'spikes': 3, 'templates': 2, 'channels': 3, 'raw_channels': '3..4', 'waveform_samples': 2,
              'symbolic_presence_flags_per_config': '<= 3',
              'unbounded': ['spike samples', 'amplitudes', 'template values', 'channel-map values', 'raw recording '
                            'length and contents', 'extra attribute values']},
    'thorough': {'spikes': '1..3', 'templates': '2..3', 'channels': 3, 'raw_channels': '3..4', 'waveform_samples': 2,
                 'symbolic_presence_flags_per_config': '<= 4',
                 'unbounded': ['spike samples', 'amplitudes', 'template values', 'channel-map values', 'raw '
                               'recording length and contents', 'extra attribute values']},
}
ASSUMPTIONS = [
    'well-formed dataset with at least two spikes, templates and channels (the loader squeezes every array, so a '
    'dimension of length one is ambiguous): mandatory files present with consistent shapes; spike samples non-decreasing (a separate '
    'configuration gives unsorted samples and expects ValueError); ids fit their dtype',
    'NaN/inf entries are concrete values at fixed positions of amplitudes / one all-NaN template (configuration)',
    'sampling rate 100 Hz (exact); ALF seconds are k/rate; whitening matrices from a fixed concrete set',
    'params.py is concrete text executed by the real read_python',
    'forms added after seeding rounds: sub-unit channel pitch; a whitening_mat_inv.npy created by loading must hold the inverse (the replay loads the directory a second time)',
]
STUBS = ['np.load/np.save/np.memmap/Path/glob/shutil.copy (virtual file system; mmap_mode r+ aliases the file)',
         'np.linalg.inv on concrete matrices (real NumPy)', 'mtscomp/tqdm']
OUTSIDE = ['.mat files', 'symbolic whitening matrices', 'float rounding', 'directory listing order']
WITNESS_CAP = {'quick': 25, 'thorough': 50}
LOOP_BOUND = 16


def configs(tier):
    quick = tier == 'quick'
    out = []
    base = {'ns': 3, 'T': 2, 'nc': 3, 'nsw': 2}
    variants = [
        {'names': 'ks', 'optional': {'amplitudes': 'sym', 'spike_clusters': 'sym', 'whitening_mat': 'sym'},
         'wm': 'diag', 'curated': True, 'sym': ['spikes']},
        {'names': 'ks', 'curated': True, 'sym': ['ids'], 'optional': {'spike_clusters': 'sym'}},
        {'names': 'ks', 'colvec': True, 'optional': {'channel_shanks': 'sym', 'channel_probe': 'sym',
                                                       'similar_templates': 'sym'}, 'wm': 'dense', 'id_dtype': 'uint32',
         'sym': ['spikes', 'templates']},
        {'names': 'ks', 'optional': {'pc_features': 'sym', 'template_features': 'sym'}, 'time_dtype': 'int64',
         'id_dtype': 'int64', 'extra_attr': True, 'sym': ['spikes', 'channels']},
        {'names': 'ks', 'raw': True, 'ncd': 4, 'optional': {'raw': 'yes', 'amplitudes': 'sym'}, 'wm': 'I',
         'map_dtype': 'uint32', 'sym': ['channels']},
        {'names': 'ks', 'raw': True, 'ncd': 4, 'optional': {'raw': 'yes'}, 'sym': ['spikes'], 'colvec': True},
        {'names': 'ks', 'nan': 'amplitudes', 'optional': {'spike_clusters': 'no'}, 'sym': ['spikes', 'templates']},
        {'names': 'ks', 'nan': 'template', 'tpl_dtype': 'float64', 'sym': ['spikes']},
        {'names': 'ks', 'nan': 'amplitudes', 'amp_dtype': 'float32', 'sym': ['ids'], 'optional': {'pc_features': 'no'}},
        {'names': 'ks', 'sparse': True, 'optional': {'whitening_mat': 'no'}, 'sym': ['spikes', 'templates']},
        {'names': 'ks', 'allow_unsorted': True, 'optional': {'amplitudes': 'no'}, 'sym': ['spikes']},
        {'names': 'ks', 'id_dtype': 'uint16', 'sym': ['ids', 'channels']},
        {'names': 'ks', 'sym': ['spikes'], 'positions': [[0.0, 0.0], [0.4, 0.0], [0.0, 0.5]]},   # mm-scale geometry
        {'names': 'alf', 'optional': {'spike_samples': 'sym', 'amplitudes': 'sym'}, 'wm': 'diag',
         'sym': ['spikes', 'templates']},
        {'names': 'alf', 'colvec': True, 'optional': {'spike_samples': 'no', 'spike_clusters': 'sym'},
         'curated': True, 'sym': ['spikes']},
        {'names': 'alf', 'raw': True, 'ncd': 3, 'optional': {'raw': 'yes', 'channel_probe': 'sym'},
         'sym': ['channels']},
        {'names': 'alf', 'optional': {'spike_clusters': 'no'}, 'sym': ['ids']},
    ]
    if not quick:
        variants += [
            {'names': 'ks', 'raw': True, 'ncd': 4, 'colvec': True, 'curated': True, 'wm': 'dense', 'sym': ['spikes'],
             'optional': {'raw': 'yes', 'spike_clusters': 'sym', 'whitening_mat': 'sym', 'similar_templates': 'sym',
                          'pc_features': 'sym'}},
            {'names': 'alf', 'sparse': True, 'optional': {'spike_samples': 'sym', 'channel_shanks': 'sym'},
             'sym': ['spikes', 'channels']},
            {'names': 'ks', 'ns': 2, 'optional': {'amplitudes': 'sym'}},
            {'names': 'ks', 'T': 3, 'curated': True, 'optional': {'spike_clusters': 'sym'}, 'sym': ['ids']},
            {'names': 'ks', 'curated': True, 'sym': ['ids', 'templates'], 'ns': 2},
            {'names': 'ks', 'raw': True, 'ncd': 4, 'sym': ['spikes', 'channels'], 'optional': {'raw': 'yes'}},
        ]
    for v in variants:
        c = dict(base)
        c.update(v)
        out.append(c)
    return out


def _eq_elem(a, b):
    """equality of two raw elements, NaN-aware for concrete floats"""
    if not isinstance(a, core.Sym) and not isinstance(b, core.Sym):
        if isinstance(a, float) and a != a:
            return isinstance(b, float) and b != b
        return a == b
    return a == b


def _arr_eq(obl, got, want_flat, shape, label, scrub=False):
    got = snp.asarray(got)
    if tuple(got.shape) != tuple(shape):
        obl.append((False, '%s has shape %s, the file holds %s' % (label, tuple(got.shape), tuple(shape))))
        return
    gl = got.a.ravel().tolist()
    for g, w in zip(gl, want_flat):
        if scrub and isinstance(w, float) and (w != w or w in (float('inf'), float('-inf'))):
            w = 0.0
        obl.append((_eq_elem(g, w), '%s differs from the file contents' % label))


def run_config(cfg, e):
    pkg = env.make_pkg(record=e.functions)
    e.concretize_shapes = True
    e.hash_concretize = True

    def fn():
        vfs.reset()
        ds = datasets.build(e, cfg)
        e.case_builder = lambda ev: datasets.case_of(ev, ds)
        fs = vfs.fs()
        before = {k: (v, v.arr.copy() if v.kind == 'npy' and not isinstance(v.arr, lam.LArr) else None)
                  for k, v in fs.entries.items()}
        nlog = len(fs.log)
        mod = pkg.load('phylib.io.model')
        ns, T, nc, nsw = cfg['ns'], cfg['T'], cfg['nc'], cfg['nsw']
        unsorted_possible = cfg.get('allow_unsorted')
        try:
            m = mod.load_model(vfs.VPath(ds.dir + '/params.py'))
        except ValueError as ex:
            if unsorted_possible and 'increasing' in str(ex):
                srt = sand(*[a <= b for a, b in zip(ds.ks[:-1], ds.ks[1:])])
                e.prove(snot(srt), 'monotonic spike times rejected')
                e.witness()
                return
            e.fail('exception %r' % (ex,))
        except Exception as ex:
            e.fail('exception %r' % (ex,))
        if unsorted_possible:
            e.prove(sand(*[a <= b for a, b in zip(ds.ks[:-1], ds.ks[1:])]), 'non-monotonic spike times accepted')
        P = {k: (v if isinstance(v, bool) else bool(v)) for k, v in ds.presence.items()}
        obl = []
        _arr_eq(obl, m.spike_samples, ds.ks, (ns,), 'spike_samples')
        st = snp.asarray(m.spike_times)
        obl.append((st.shape == (ns,), 'spike_times shape'))
        if st.shape == (ns,):
            for g, k in zip(st.a.tolist(), ds.ks):
                obl.append((g * RATE == k, 'spike_times is not samples / sample_rate'))
        _arr_eq(obl, m.spike_templates, ds.st, (ns,), 'spike_templates')
        _arr_eq(obl, m.spike_clusters, ds.sc if P.get('spike_clusters', True) else ds.st, (ns,), 'spike_clusters')
        if P.get('amplitudes', True):
            _arr_eq(obl, m.amplitudes, ds.amv, (ns,), 'amplitudes', scrub=True)
        else:
            obl.append((m.amplitudes is None, 'amplitudes should be None when the file is absent'))
        _arr_eq(obl, m.channel_mapping, ds.cm, (nc,), 'channel_mapping')
        _arr_eq(obl, m.channel_positions, [v for xy in ds.pos for v in xy], (nc, 2), 'channel_positions')
        _arr_eq(obl, m.channel_shanks, ds.shanks if P.get('channel_shanks', True) else [0] * nc, (nc,), 'channel_shanks')
        _arr_eq(obl, m.channel_probes, ds.probes if P.get('channel_probe', True) else [0] * nc, (nc,), 'channel_probes')
        tvw = list(ds.tvf)
        if cfg.get('nan') == 'template':
            tvw = [0.0] * (nsw * nc) + tvw[nsw * nc:]
        _arr_eq(obl, m.sparse_templates.data, tvw, (T, nsw, nc), 'templates')
        if cfg.get('sparse'):
            _arr_eq(obl, m.sparse_templates.cols, ds.template_ind, (T, nc), 'template channel table')
        else:
            obl.append((m.sparse_templates.cols is None, 'dense templates reported as sparse'))
        wm = ds.wm if (ds.wm is not None and P.get('whitening_mat', True)) else np.eye(nc)
        _arr_eq(obl, m.wm, wm.ravel().tolist(), (nc, nc), 'whitening matrix')
        _arr_eq(obl, m.wmi, np.linalg.inv(wm).ravel().tolist(), (nc, nc), 'inverse whitening matrix')
        _arr_eq(obl, m.similar_templates, ds.sim if P.get('similar_templates', True) else [0.0] * (T * T), (T, T),
                'similar_templates')
        if P.get('pc_features', True):
            f = snp.asarray(m.sparse_features.data)
            want = np.array(ds.fv).reshape(ns, ds.npcs, ds.ncl).transpose(0, 2, 1)
            _arr_eq(obl, f, want.ravel().tolist(), want.shape, 'pc features')
            _arr_eq(obl, m.sparse_features.cols, ds.pci, (T, ds.ncl), 'pc feature channel table')
        else:
            obl.append((m.sparse_features is None, 'features should be None when the file is absent'))
        if P.get('template_features', True):
            _arr_eq(obl, m.sparse_template_features.data, ds.tfv, (ns, ds.ncl), 'template features')
        else:
            obl.append((m.sparse_template_features is None, 'template features should be None'))
        for k, v in ds.extra.items():
            if k not in m.spike_attributes:
                obl.append((False, 'extra spike attribute %s not loaded' % k))
            else:
                _arr_eq(obl, m.spike_attributes[k], v, (ns,), 'spike attribute %s' % k)
        if ds.extra:
            obl.append(('badlen' not in m.spike_attributes, 'attribute array of the wrong length was loaded'))
        obl.append((m.n_templates == T and m.n_channels == nc and m.n_spikes == ns, 'counts'))
        if cfg.get('curated') and P.get('spike_clusters', True):
            same = sand(*[a == b for a, b in zip(ds.sc, ds.st)])
            mx = ds.sc[0]
            for v in ds.sc[1:]:
                mx = ite(v > mx, v, mx)
            obl.append((ite(same, m.sparse_clusters is m.sparse_templates and m.n_clusters == T, m.n_clusters == mx + 1)
                        if False else implies(same, SymBool(m.sparse_clusters is m.sparse_templates)),
                        'identical assignments must share the template waveforms'))
            obl.append((implies(snot(same), m.n_clusters == mx + 1), 'n_clusters after curation'))
            if not bool(same):
                # curated: every cluster id maps to the templates its spikes came from
                obl.append((m.sparse_clusters is not m.sparse_templates, 'curated dataset treated as uncurated'))
                mm = m.merge_map
                ncl_ = core.eng().concretize(core.term_of(mx)) + 1
                obl.append((sorted(int(k) for k in mm.keys()) == list(range(ncl_)), 'merge_map keys after loading'))
                for cl in range(ncl_):
                    lst = [int(v) for v in mm.get(cl, [])]
                    for t in range(T):
                        has = sor(*[sand(ds.sc[p_] == cl, ds.st[p_] == t) for p_ in range(ns)])
                        obl.append((has if t in lst else snot(has), 'merge_map[%d] after loading' % cl))
        else:
            obl.append((m.sparse_clusters is m.sparse_templates, 'uncurated dataset: cluster waveforms are the template waveforms'))
            obl.append((m.n_clusters == T, 'uncurated dataset: as many clusters as templates'))
        e.prove_all(obl)
        # raw traces
        if ds.raw is not None:
            D, nr, ncd, isz = ds.raw
            e.prove(m.traces is not None, 'traces not loaded')
            try:
                a, b = e.int('ra', 0), e.int('rb', 0)
                e.assume(sand(a < b, b <= nr))
                e.prefer.append(b - a <= 3)
                blk = snp.asarray(m.traces[a:b])
            except Exception as ex:
                e.fail('traces read: %r' % (ex,))
            j = e.int('j')
            g = sand(j >= 0, j < b - a)
            obl = [(blk.shape[0] == b - a, 'traces rows'), (blk.shape[1] == nc, 'traces columns'),
                   (m.duration == SymReal(z3.ToReal(core.term_of(nr)) / z3.RealVal(str(RATE))), 'duration')]
            for c in range(nc):
                want = D(a + j, ds.cm[c])
                obl.append((implies(g, lam.elem(blk, (j, c)) == want), 'traces column %d is not raw column channel_map[%d]' % (c, c)))
            e.prove_all(obl)
        else:
            e.prove(m.traces is None, 'traces without raw data')
        # a whitening_mat_inv.npy created by loading is what the next load of this directory reads
        went = fs.get(ds.dir + '/whitening_mat_inv.npy')
        if went is not None and (ds.dir + '/whitening_mat_inv.npy') not in before:
            obl = []
            _arr_eq(obl, snp.asarray(went.arr), np.linalg.inv(wm).ravel().tolist(), (nc, nc),
                    'whitening_mat_inv.npy written at load time is not the inverse of the whitening matrix')
            e.prove_all(obl)
        # directory invariants
        allowed_new = {ds.dir + '/spike_clusters.npy', ds.dir + '/whitening_mat_inv.npy'}
        for op in fs.log[nlog:]:
            if op[0] in ('create',) and op[1] in allowed_new:
                continue
            if op[0] == 'mkdir':
                continue
            e.fail('loading performed %s on %s' % (op[0], op[1]))
        for k, (ent, snap) in before.items():
            cur = fs.entries.get(k)
            if cur is not ent:
                if ent.present is True or (not isinstance(ent.present, bool) and bool(ent.present)):
                    e.fail('pre-existing file %s replaced' % k)
                continue
            if snap is not None:
                same = all(_is_same(x, y) for x, y in zip(snap.a.ravel().tolist(), ent.arr.a.ravel().tolist()))
                if not same:
                    e.fail('pre-existing file %s was modified by loading' % k)
        new_sc = fs.get(ds.dir + '/spike_clusters.npy')
        if not P.get('spike_clusters', True):
            e.prove(new_sc is not None, 'spike_clusters.npy not created')
        e.witness()

    e.explore(fn)


def _is_same(x, y):
    if x is y:
        return True
    if isinstance(x, core.Sym) or isinstance(y, core.Sym):
        return False
    if isinstance(x, float) and x != x:
        return isinstance(y, float) and y != y
    return x == y


def replay(case):
    cfg = case['cfg']
    rd = datasets.RealDS(case)
    try:
        from phylib.io import model as mod
        before = rd.snapshot()
        ns, T, nc, nsw = cfg['ns'], cfg['T'], cfg['nc'], cfg['nsw']
        ks = case['ks']
        srt = all(a <= b for a, b in zip(ks[:-1], ks[1:]))
        try:
            m = mod.load_model(os.path.join(rd.dir, 'params.py'))
        except ValueError as ex:
            if 'increasing' in str(ex):
                return None if not srt else 'monotonic spike times rejected'
            return 'load_model raised %r' % (ex,)
        except Exception as ex:
            return 'load_model raised %r' % (ex,)
        try:
            if not srt:
                return 'non-monotonic spike times %s accepted' % ks
            P = case['presence']
            if [int(v) for v in m.spike_samples] != ks or not np.allclose(m.spike_times, np.array(ks) / RATE):
                return 'spike samples/times %s %s' % (m.spike_samples.tolist(), m.spike_times.tolist())
            if [int(v) for v in m.spike_templates] != case['st']:
                return 'spike_templates'
            wsc = case['sc'] if P.get('spike_clusters', True) else case['st']
            if [int(v) for v in m.spike_clusters] != wsc:
                return 'spike_clusters %s, expected %s' % (m.spike_clusters.tolist(), wsc)
            if P.get('amplitudes', True):
                want = np.nan_to_num(rd.am_file, nan=0.0, posinf=0.0, neginf=0.0)
                if m.amplitudes is None or not np.allclose(m.amplitudes, want):
                    return 'amplitudes %s, expected %s' % (m.amplitudes, want.tolist())
            elif m.amplitudes is not None:
                return 'amplitudes should be None'
            if [int(v) for v in m.channel_mapping] != case['cm']:
                return 'channel_mapping'
            if not np.allclose(np.asarray(m.channel_positions, dtype=float), rd.pos):
                return 'channel_positions %s differ from the file contents %s' % (
                    np.asarray(m.channel_positions).tolist(), rd.pos.tolist())
            if wsc != case['st']:
                if m.sparse_clusters is m.sparse_templates:
                    return 'curated dataset (clusters %s, templates %s) treated as uncurated' % (wsc, case['st'])
                for cl in range(max(wsc) + 1):
                    want_t = sorted({case['st'][i] for i in range(ns) if wsc[i] == cl})
                    if sorted(int(v) for v in m.merge_map.get(cl, [])) != want_t:
                        return 'merge_map[%d] = %s after loading, expected %s' % (cl, list(m.merge_map.get(cl, [])), want_t)
            tw = rd.tpl_file.copy()
            if cfg.get('nan') == 'template':
                tw[0] = 0
            if not np.allclose(np.asarray(m.sparse_templates.data), tw):
                return 'templates differ from the file'
            wm = rd.wm if (rd.wm is not None and P.get('whitening_mat', True)) else np.eye(nc)
            if not np.allclose(m.wm, wm) or not np.allclose(m.wmi, np.linalg.inv(wm)):
                return 'whitening matrix / inverse'
            if (m.sparse_features is None) != (not P.get('pc_features', True)):
                return 'features presence'
            for k, v in case.get('extra', {}).items():
                if k not in m.spike_attributes or not np.allclose(m.spike_attributes[k], v):
                    return 'spike attribute %s' % k
            if rd.rawdata is not None:
                if m.traces is None:
                    return 'traces not loaded'
                nr = rd.rawdata.shape[0]
                a, b = 0, min(3, nr)
                if not np.array_equal(m.traces[a:b], rd.rawdata[a:b][:, case['cm']]):
                    return 'traces columns are not raw[:, channel_map]'
                if abs(m.duration - nr / RATE) > 1e-12:
                    return 'duration'
        finally:
            m.close()
        after = rd.snapshot()
        for fn, h in before.items():
            if after.get(fn) != h:
                return 'pre-existing file %s was modified by loading' % fn
        extra = set(after) - set(before) - {'spike_clusters.npy', 'whitening_mat_inv.npy'}
        if extra:
            return 'loading created %s' % sorted(extra)
        if 'whitening_mat_inv.npy' in after and 'whitening_mat_inv.npy' not in before:
            # loading the same directory again
            m2 = mod.load_model(os.path.join(rd.dir, 'params.py'))
            try:
                wm2 = rd.wm if (rd.wm is not None and case['presence'].get('whitening_mat', True)) else np.eye(cfg['nc'])
                if not np.allclose(m2.wmi, np.linalg.inv(wm2)):
                    return 'second load of the directory: inverse whitening matrix %s, expected %s' % (
                        np.asarray(m2.wmi).tolist(), np.linalg.inv(wm2).tolist())
            finally:
                m2.close()
        return None
    finally:
        rd.close()


def classify(case, failure):
    if 'templates' in str(failure) and 'modified by loading' in str(failure) and case['cfg'].get('nan') == 'template':
        return 'C04-nan-template-written-back'
    return None


if __name__ == '__main__':
    sys.exit(harness.main('checks.c04'))
