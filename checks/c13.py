"""C13 ALF export writes consistent object tables that load back to the same spikes."""
import sys
import os
import z3
import numpy as np

from symx import core, env, lam, harness, vfs, symnp as snp
from symx.core import SymInt, SymReal, SymBool, sand, sor, snot, implies, ite
from checks import alfconv, datasets
from checks.datasets import RATE

PID = 'C13'
FUNCTIONS = alfconv.FUNCS
BOUNDS = {
    'quick': {'spikes': 3, 'templates': 2, 'channels': '3..4', 'probes': '1..3',
              'unbounded': ['spike samples', 'amplitudes', 'template values', 'cluster assignments (ids < T+2)',
                            'channel maps', 'raw recording length']},
    'thorough': {'spikes': '2..3', 'templates': '2..3', 'channels': '3..5', 'probes': '1..4',
                 'unbounded': ['spike samples', 'amplitudes', 'template values', 'cluster assignments',
                               'channel maps', 'raw recording length']},
}
ASSUMPTIONS = [
    'dense-template KS datasets generated as in C04 (each configuration makes one or two groups of values '
    'symbolic); ids below 65536; labels "" / "probe00" / "probe01"; unit factors from {0.5, 1, 2.5}',
    'uuid.uuid4 is the real generator (distinctness is checked on the values drawn)',
    'spike-subset export draws (np.random.choice) are an arbitrary-subset stub',
    'forms added after seeding rounds: spike samples up to 2**40; merged dataset with an 8-bit probe table and raw channel ids up to 400',
]
STUBS = ['virtual file system (np.save/np.load/open/glob/rename/shutil.copy)', 'tqdm', 'np.random.choice']
OUTSIDE = ['byte formats (replays use real files)', 'sparse-template export (not implemented upstream)']
WITNESS_CAP = {'quick': 20, 'thorough': 40}
LOOP_BOUND = 16
LABELLED = ('channels', 'clusters', 'spikes', 'templates')


def configs(tier):
    out = alfconv.base_configs(tier)
    out.append(dict(out[0], same_dir=True))
    return out


def run_config(cfg, e):
    pkg = env.make_pkg(record=e.functions)
    e.concretize_shapes = True
    e.hash_concretize = True

    def fn():
        if cfg.get('same_dir'):
            vfs.reset()
            ds = datasets.build(e, cfg)
            e.case_builder = lambda ev: dict(datasets.case_of(ev, ds), label='', factor=1.0, same_dir=True)
            mod = pkg.load('phylib.io.model')
            alf = pkg.load('phylib.io.alf')
            m = mod.load_model(vfs.VPath(ds.dir + '/params.py'))
            n0 = len(vfs.fs().log)
            try:
                # the same directory, spelled through an alias path
                alf.EphysAlfCreator(m).convert(vfs.VPath(ds.dir + '/../' + ds.dir.strip('/')))
                e.fail('conversion into the source directory was not refused')
            except IOError:
                pass
            except Exception as ex:
                e.fail('exception %r' % (ex,))
            e.prove(len(vfs.fs().log) == n0, 'refused conversion still wrote files')
            e.witness()
            return
        try:
            c = alfconv.run_conversion(e, pkg, cfg)
        except Exception as ex:
            e.fail('exception %r' % (ex,))
        ds, fs, m2 = c.ds, c.fs, c.result
        ns, T, nc = cfg['ns'], cfg['T'], cfg['nc']
        # number of clusters: one per id up to the highest, or one per template when nothing was curated
        same = sand(*[a == b for a, b in zip(ds.sc, ds.st)])
        mx = ds.sc[0]
        for v in ds.sc[1:]:
            mx = ite(v > mx, v, mx)
        nclu = ite(same, T, mx + 1)
        nclu = core.eng().concretize(core.term_of(nclu)) if isinstance(nclu, core.Sym) else nclu
        lab = cfg['label']
        names = [k[len(c.out) + 1:] for k in fs.listdir(c.out)]
        obl = []
        for fn_ in names:
            parts = fn_.split('.')
            if parts[0] in LABELLED and fn_.endswith(('.npy', '.csv')):
                if lab:
                    obl.append((len(parts) >= 3 and parts[-2] == lab, 'label not inserted before the extension of %s' % fn_))
                else:
                    obl.append((len(parts) == 3, 'unexpected name %s' % fn_))
        dims = {'spikes': ns, 'clusters': nclu, 'templates': T, 'channels': nc}
        seen = {k: 0 for k in dims}
        for fn_ in names:
            obj = fn_.split('.')[0]
            if obj in dims and fn_.endswith('.npy'):
                ent = fs.get(c.out + '/' + fn_)
                if ent.kind != 'npy' or ent.corrupt:
                    obl.append((False, '%s is not a loadable array' % fn_))
                    continue
                seen[obj] += 1
                obl.append((snp.asarray(ent.arr).shape[0] == dims[obj],
                            '%s has %s rows, expected %s' % (fn_, snp.asarray(ent.arr).shape[0], dims[obj])))
        for k, v in seen.items():
            obl.append((v >= 1, 'no %s.* file written' % k))
        for must in ('spikes.times', 'spikes.samples', 'spikes.amps', 'spikes.clusters', 'spikes.templates',
                     'spikes.depths', 'clusters.channels', 'clusters.amps', 'clusters.depths',
                     'clusters.peakToTrough', 'clusters.waveforms', 'clusters.waveformsChannels',
                     'templates.waveforms', 'templates.waveformsChannels', 'templates.amps', 'channels.rawInd',
                     'channels.localCoordinates'):
            obl.append((alfconv.out_array(c, must, must=False) is not None, 'file %s missing' % must))
        e.prove_all(obl)
        # uuids: header + one distinct line per cluster
        un = 'clusters.uuids%s.csv' % (('.' + lab) if lab else '')
        ent = fs.get(c.out + '/' + un)
        if ent is None:
            e.fail('%s missing' % un)
        lines = ent.text.split('\n')
        e.prove(lines[0] == 'uuids' and len(lines) == nclu + 1 and len(set(lines[1:])) == nclu and all(lines[1:]),
                'uuid file has %d lines for %d clusters' % (len(lines) - 1, nclu))
        # spike times in seconds, samples in samples
        ts, sm = alfconv.out_array(c, 'spikes.times'), alfconv.out_array(c, 'spikes.samples')
        obl = []
        for i in range(ns):
            obl.append((sm.a[i] == ds.ks[i], 'spikes.samples'))
            obl.append((ts.a[i] * RATE == ds.ks[i], 'spikes.times not in seconds'))
        e.prove_all(obl)
        # reload
        e.prove(m2 is not None, 'convert() did not return the reloaded model')
        obl = []
        for i in range(ns):
            obl.append((snp.asarray(m2.spike_samples).a[i] == ds.ks[i], 'reloaded spike samples'))
            obl.append((snp.asarray(m2.spike_times).a[i] * RATE == ds.ks[i], 'reloaded spike times'))
            obl.append((snp.asarray(m2.spike_clusters).a[i] == ds.sc[i], 'reloaded spike clusters'))
            obl.append((snp.asarray(m2.spike_templates).a[i] == ds.st[i], 'reloaded spike templates'))
        for k in range(nc):
            obl.append((snp.asarray(m2.channel_mapping).a[k] == snp.asarray(c.model.channel_mapping).a[k]
                        if not cfg.get('merged') else True, 'reloaded channel map'))
            for d in range(2):
                obl.append((snp.asarray(m2.channel_positions).a[k, d] == ds.pos[k][d], 'reloaded channel positions'))
        e.prove_all(obl)
        # source directory: pre-existing files untouched, only the subset files added, temp_wh.dat removed
        allowed_new = {ds.dir + '/_phy_spikes_subset.%s.npy' % k for k in ('waveforms', 'spikes', 'channels')}
        for op in fs.log[c.nlog:]:
            tgt = [str(x) for x in op[1:]]
            if not any(t.startswith(ds.dir + '/') for t in tgt):
                continue
            if op[0] == 'unlink' and tgt[0] == ds.dir + '/temp_wh.dat':
                continue
            if op[0] in ('create', 'overwrite') and tgt[0] in allowed_new and tgt[0] not in c.before:
                continue
            e.fail('conversion performed %s on the source file %s' % (op[0], tgt[0]))
        for k, ent in c.before.items():
            if k.endswith('/temp_wh.dat'):
                e.prove(fs.get(k) is None, 'temp_wh.dat not deleted')
            elif fs.entries.get(k) is not ent:
                e.fail('source file %s replaced' % k)
        e.witness()

    e.explore(fn)


def replay(case):
    cfg = case['cfg']
    rc = alfconv.RealConv(case)
    try:
        if case.get('same_dir'):
            try:
                rc.creator.convert(os.path.join(rc.rd.dir, '..', os.path.basename(rc.rd.dir)))
            except IOError:
                return None if rc.rd.snapshot() == rc.after_load else 'refused conversion still wrote files'
            except Exception as ex:
                return 'raised %r' % (ex,)
            return 'conversion into the source directory was not refused'
        try:
            m2 = rc.convert()
        except Exception as ex:
            return 'convert raised %r (clusters %s, templates %s)' % (ex, case['sc'], case['st'])
        try:
            ns, T, nc = cfg['ns'], cfg['T'], cfg['nc']
            nclu = T if case['sc'] == case['st'] else max(case['sc']) + 1
            lab = case['label']
            dims = {'spikes': ns, 'clusters': nclu, 'templates': T, 'channels': nc}
            for fn_ in sorted(os.listdir(rc.out)):
                parts = fn_.split('.')
                if parts[0] in LABELLED and fn_.endswith(('.npy', '.csv')):
                    if lab and (len(parts) < 3 or parts[-2] != lab):
                        return 'label not inserted in %s' % fn_
                    if fn_.endswith('.npy'):
                        a = np.load(os.path.join(rc.out, fn_))
                        if a.shape[0] != dims[parts[0]]:
                            return '%s has %d rows, expected %d' % (fn_, a.shape[0], dims[parts[0]])
            un = 'clusters.uuids%s.csv' % (('.' + lab) if lab else '')
            lines = open(os.path.join(rc.out, un)).read().split('\n')
            if lines[0] != 'uuids' or len(lines) != nclu + 1 or len(set(lines[1:])) != nclu:
                return 'uuid file'
            if [int(v) for v in rc.load('spikes.samples')] != case['ks'] or \
                    not np.allclose(rc.load('spikes.times'), np.array(case['ks']) / RATE):
                return 'spikes.times / spikes.samples'
            if m2 is None:
                return 'convert() returned None'
            if [int(v) for v in m2.spike_samples] != case['ks'] or [int(v) for v in m2.spike_clusters] != case['sc'] \
                    or [int(v) for v in m2.spike_templates] != case['st'] or \
                    not np.allclose(m2.spike_times, np.array(case['ks']) / RATE) or \
                    not np.allclose(m2.channel_positions, rc.rd.pos):
                return 'reloaded model differs: clusters %s (source %s), templates %s (source %s)' % (
                    list(m2.spike_clusters), case['sc'], list(m2.spike_templates), case['st'])
            m2.close()
            after = rc.rd.snapshot()
            for fn_, h in rc.after_load.items():
                if fn_ == 'temp_wh.dat':
                    if fn_ in after:
                        return 'temp_wh.dat not deleted'
                elif after.get(fn_) != h:
                    return 'source file %s changed' % fn_
            extra = set(after) - set(rc.after_load) - {'_phy_spikes_subset.%s.npy' % k for k in
                                                       ('waveforms', 'spikes', 'channels')}
            if extra:
                return 'conversion added %s to the source directory' % sorted(extra)
        finally:
            pass
        return None
    finally:
        rc.close()


def classify(case, failure):
    return None


if __name__ == '__main__':
    sys.exit(harness.main('checks.c13'))
