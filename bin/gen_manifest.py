#!/usr/bin/env python3
"""Regenerate MANIFEST.json from the per-check metadata (checks/cNN.py docstrings + table below)."""
import json, os, re
V = os.path.dirname(os.path.dirname(os.path.abspath(__file__)))
ALL = ['C%02d' % i for i in range(1, 21)]
# property -> (technique, level text, level note)
CLAIMED = json.load(open(os.path.join(V, 'bin', 'claimed.json')))
NA = json.load(open(os.path.join(V, 'bin', 'not_applicable.json')))
checks = []
for pid in ALL:
    if pid not in CLAIMED:
        continue
    c = CLAIMED[pid]
    checks.append({
        'property_id': pid,
        'quick_cmd': './check %s --tier quick' % pid,
        'thorough_cmd': './check %s --tier thorough' % pid,
        'evidence_file': 'evidence/%s.json' % pid,
        'replay_cmd_template': './check %s --replay {path}' % pid,
        'engine': 'symx',
        'level_claimed': {'category': 'other', 'text': c['text'], 'design_ref': 'DESIGN.md §4 ' + pid},
        'level_note': c['note'],
        'technique': c['technique'],
    })
na = [{'property_id': p, 'reason': NA.get(p, 'check not built yet in this session (planned, see DESIGN.md §4)')}
      for p in ALL if p not in CLAIMED]
m = {
    'version': 1,
    'setup_cmd': './bin/ensure_env',
    'hooks': {'guard': 'PHYLIB_VERIF', 'enable': 'none needed: the environment is substituted by the symx loader, '
              '/repo sources are executed unmodified', 'baseline_off_cmd':
              'cd /repo && /venv/bin/python -m pytest -ra -q -p no:cacheprovider --timeout=900 --continue-on-collection-errors',
              'source_commits': [], 'add_only': True},
    'engines': [{'name': 'symx', 'path': 'symx/', 'serves_properties': sorted(CLAIMED),
                 'kind_free_text': 'decision-replay symbolic executor over z3 running the real phylib source '
                 'with numpy/pathlib/builtins substituted by symbolic models; counterexamples replayed on the real stack'}],
    'checks': checks,
    'not_applicable': na,
    'notes': 'exit 2 = inconclusive (solver unknown / bound exceeded / counterexample that does not replay); never a pass.',
}
json.dump(m, open(os.path.join(V, 'MANIFEST.json'), 'w'), indent=1)
print('claimed', sorted(CLAIMED), 'n/a', [x['property_id'] for x in na])
